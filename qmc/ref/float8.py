"""Hand-decoded 8-bit float tables (independent of torch's casts).

e4m3fn: 1 sign, 4 exponent (bias 7), 3 mantissa; no infinities; S.1111.111 is NaN; max 448.
e5m2  : 1 sign, 5 exponent (bias 15), 2 mantissa; IEEE-like: exponent 31 is inf/NaN; max 57344.
"""
import math


def _decode(byte, ebits, mbits, bias, fn):
    sign = -1.0 if byte >> 7 else 1.0
    e = (byte >> mbits) & ((1 << ebits) - 1)
    m = byte & ((1 << mbits) - 1)
    if fn:
        if e == (1 << ebits) - 1 and m == (1 << mbits) - 1:
            return math.nan
    else:
        if e == (1 << ebits) - 1:
            return sign * math.inf if m == 0 else math.nan
    if e == 0:
        return sign * m * 2.0 ** (1 - bias - mbits)
    return sign * (1 + m / (1 << mbits)) * 2.0 ** (e - bias)


E4M3 = [_decode(b, 4, 3, 7, True) for b in range(256)]
E5M2 = [_decode(b, 5, 2, 15, False) for b in range(256)]

TABLES = {"qfloat8_e4m3fn": E4M3, "qfloat8": E4M3, "qfloat8_e5m2": E5M2}
QMAX = {"qint8": 127.0, "qfloat8_e4m3fn": 448.0, "qfloat8": 448.0, "qfloat8_e5m2": 57344.0}
QMIN = {"qint8": -128.0, "qfloat8_e4m3fn": -448.0, "qfloat8": -448.0, "qfloat8_e5m2": -57344.0}


def grid(qname):
    """Sorted list of the finite values representable in the 8-bit type."""
    if qname == "qint8":
        return [float(v) for v in range(-128, 128)]
    vals = sorted({v for v in TABLES[qname] if math.isfinite(v)})
    return vals


def selftest():
    assert max(grid("qfloat8_e4m3fn")) == 448.0 and min(v for v in grid("qfloat8_e4m3fn") if v > 0) == 2.0**-9
    assert max(grid("qfloat8_e5m2")) == 57344.0 and min(v for v in grid("qfloat8_e5m2") if v > 0) == 2.0**-16
    assert len(grid("qfloat8_e4m3fn")) == 253 and len(grid("qfloat8_e5m2")) == 247
    # cross-check (informational) against torch's decoding
    import torch

    for name, dt in (("qfloat8_e4m3fn", torch.float8_e4m3fn), ("qfloat8_e5m2", torch.float8_e5m2)):
        tv = torch.arange(256, dtype=torch.int32).to(torch.uint8).view(dt).to(torch.float64).tolist()
        for b in range(256):
            a, c = TABLES[name][b], tv[b]
            assert (a != a and c != c) or a == c, (name, b, a, c)


if __name__ == "__main__":
    selftest()
    print("float8 tables ok")
