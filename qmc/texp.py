"""Explicit-state exploration of tensor-operation programs on quantized tensors (engine E2, used by C05 and C06).

state      = history (list of events) from a named initial tensor; rebuilt by replay on fresh real objects
transition = one torch operation applied to the current quantized tensor (+ partners derived from it)
oracle     = the same operation on the float twins (dequantized values under the wrapper's size/stride)
             + the metadata invariant on every quantized tensor reached
"""
import ast
import copy
import math

import torch
import torch.nn.functional as F

from . import num

DOC_REFUSALS = {"to_dtype_qbits": ValueError, "where_qcond": NotImplementedError}


# ---------------------------------------------------------------------------------------
# initial tensors
# ---------------------------------------------------------------------------------------
def _vals(shape, dt, lo=-1.3, hi=1.3):
    n = 1
    for d in shape:
        n *= d
    i = torch.arange(n, dtype=torch.float64)
    v = lo + (hi - lo) * ((i * 37) % 101) / 100.0 + (i if n <= 4096 else i % 1009) * 1e-3
    if n > 2:
        v[0] = 0.0
    return v.reshape(shape).to(dt)


INITIALS = {
    # name: (kind, qtype, shape, dtype, extra)
    "act_i8_2d": ("act", "qint8", (4, 6), "float32", None),
    "act_e4m3_2d": ("act", "qfloat8_e4m3fn", (4, 6), "float32", None),
    "act_e5m2_3d": ("act", "qfloat8_e5m2", (2, 3, 4), "float16", None),
    "act_i8_3d": ("act", "qint8", (2, 3, 4), "float16", None),
    "act_i8_1d": ("act", "qint8", (6,), "float32", None),
    "act_i8_bf16": ("act", "qint8", (2, 8), "bfloat16", None),
    "w_i8_ax0": ("w", "qint8", (4, 6), "float32", (0, None)),
    "w_i8_axm1": ("w", "qint8", (4, 6), "float16", (-1, None)),
    "w_e4m3_ax0": ("w", "qfloat8_e4m3fn", (4, 6), "float16", (0, None)),
    "w_i4_g4": ("w", "qint4", (4, 8), "float32", (0, 4)),
    "w_i2_ax0": ("w", "qint2", (3, 8), "float16", (0, None)),
    "w_i4_axm1": ("w", "qint4", (8, 3), "float32", (-1, None)),
    # the last axis given as a positive index to the symmetric quantizer (must be canonicalised to -1)
    "w_i8_axpos": ("sym", "qint8", (4, 6), "float32", 1),
}


# size ladder: large initial tensors (explored to depth 1 over the whole event menu plus a short fixed walk)
BIG_INITIALS = {
    "big_act_i8": ("act", "qint8", (1031, 1032), "float32", None),
    "big_act_e4m3": ("act", "qfloat8_e4m3fn", (3, 520, 700), "float16", None),
    "big_w_i8_ax0": ("w", "qint8", (1031, 1032), "float32", (0, None)),
    "big_w_e4m3_axm1": ("w", "qfloat8_e4m3fn", (1032, 1031), "float16", (-1, None)),
    "big_w_i4_g128": ("w", "qint4", (1030, 2048), "float32", (0, 128)),
    "big_w_i2_ax0": ("w", "qint2", (1031, 1032), "float16", (0, None)),
}


def make_initial(name):
    from optimum.quanto import quantize_activation, quantize_weight

    kind, qname, shape, dtname, extra = (INITIALS.get(name) or BIG_INITIALS[name])
    dt = num.DTYPES[dtname]
    x = _vals(shape, dt)
    if kind == "act":
        # scale chosen so that some elements saturate at both ends (codes +127 / -128 for int8)
        scale = torch.tensor(1.0 / num.float8.QMAX[qname], dtype=dt)
        return quantize_activation(x, num.qt(qname), scale)
    if kind == "sym":
        from optimum.quanto.tensor.quantizers import SymmetricQuantizer

        shp = [1] * len(shape)
        shp[extra] = shape[extra]
        scale = (0.004 * (1 + torch.arange(shape[extra], dtype=torch.float64))).to(dt).reshape(shp)
        return SymmetricQuantizer.apply(x, num.qt(qname), extra, scale)
    axis, gs = extra
    if gs is not None:
        return quantize_weight(x, num.qt(qname), axis, gs)
    return quantize_weight(x, num.qt(qname), axis)


# ---------------------------------------------------------------------------------------
# helpers
# ---------------------------------------------------------------------------------------
def is_q(t):
    from optimum.quanto import QTensor

    return isinstance(t, QTensor)


def strided_like(values, size, stride):
    """A plain tensor with the given size/stride holding `values` (handles stride-0 dims)."""
    size = list(size)
    stride = list(stride)
    if values.device.type == "meta":
        return torch.empty_strided(size, stride, dtype=values.dtype, device="meta")
    red = [1 if (st == 0 and sz > 1) else sz for sz, st in zip(size, stride)]
    v = values
    for d, (sz, st) in enumerate(zip(size, stride)):
        if st == 0 and sz > 1:
            v = v.narrow(d, 0, 1)
    out = torch.empty_strided(red, stride, dtype=values.dtype)
    out.copy_(v)
    return out.expand(size)


def twin(t):
    """Float twin: dequantized values under the wrapper's size and stride."""
    if not is_q(t):
        return t
    dq = t.dequantize()
    if tuple(dq.shape) != tuple(t.shape):
        raise MetaBroken(f"dequantize() has shape {tuple(dq.shape)} but the tensor reports {tuple(t.shape)}")
    try:
        return strided_like(dq.detach(), t.size(), t.stride())
    except Exception:
        return dq.detach().clone()


class MetaBroken(Exception):
    pass


def map_args(args, f):
    if isinstance(args, (list, tuple)):
        return type(args)(map_args(a, f) for a in args)
    return f(args)


def content_hash(t):
    import hashlib

    h = hashlib.sha256()
    if is_q(t):
        names, meta = t.__tensor_flatten__()
        h.update(repr(sorted(meta.items())).encode())
        for n in names:
            inner = getattr(t, n)
            if hasattr(inner, "_data") and not type(inner) is torch.Tensor:
                inner = inner._data
            h.update(num.bits_of(inner.detach()).contiguous().numpy().tobytes() if inner.device.type != "meta" else b"meta")
    return h.hexdigest()[:16]


def canon_key(t, init_scale_hash):
    """Canonical key of a quantized tensor: every field the dispatch code branches on."""
    from optimum.quanto import QBitsTensor

    if isinstance(t, QBitsTensor):
        return ("QBits", type(t).__name__, t.qtype.name, t.axis, tuple(t.shape), tuple(t.stride()), tuple(t._data.shape), tuple(t._data._data.shape),
                tuple(t._scale.shape), str(t.dtype), t.device.type, t._group_size)
    sflag = content_hash_scale(t) == init_scale_hash
    # the intercepted ops that work on raw codes (relu, lt, neg ...) silently assume positive scales: the sign pattern of the
    # scale is therefore part of the key (a state with a negative or null scale has different futures)
    if t._scale.device.type == "meta":
        ssign = "meta"
    else:
        sc = t._scale.detach().to(torch.float32)
        ssign = (bool((sc > 0).all()), bool((sc == 0).any()), bool(torch.isfinite(sc).all()))
    return ("QBytes", t.qtype.name, t.axis, tuple(t.shape), tuple(t.stride()), tuple(t._data.shape), tuple(t._data.stride()),
            tuple(t._scale.shape), str(t.dtype), t.device.type, sflag, bool(t._data.is_contiguous()), ssign)


def content_hash_scale(t):
    s = t._scale
    if s.device.type == "meta":
        return "meta"
    return repr(num.bits_of(s.detach()).flatten().tolist()[:8])


# ---------------------------------------------------------------------------------------
# C06 metadata invariant
# ---------------------------------------------------------------------------------------
def check_meta(t):
    """Returns a list of problems with the quantized tensor's reported metadata vs what it holds."""
    from optimum.quanto import QBitsTensor, QBytesTensor
    from optimum.quanto.tensor.qbits.packed import PackedTensor

    p = []
    try:
        dq = t.dequantize()
    except Exception as e:  # noqa
        return [f"dequantize() raised {type(e).__name__}: {e}"]
    if tuple(dq.shape) != tuple(t.shape):
        p.append(f"reports shape {tuple(t.shape)} but dequantizes to {tuple(dq.shape)}")
    if dq.dtype != t.dtype:
        p.append(f"reports dtype {t.dtype} but dequantizes to {dq.dtype}")
    if dq.device != t.device:
        p.append(f"reports device {t.device} but dequantizes on {dq.device}")
    sc = t._scale
    if sc.dtype != t.dtype:
        p.append(f"scale dtype {sc.dtype} != tensor dtype {t.dtype}")
    if isinstance(t, QBytesTensor):
        d = t._data
        if type(d) is not torch.Tensor:
            p.append(f"payload is a {type(d).__name__}")
        if d.numel() != t.numel():
            p.append(f"payload holds {d.numel()} codes for {t.numel()} elements")
        if d.dtype != t.qtype.dtype:
            p.append(f"payload dtype {d.dtype} is not the storage type {t.qtype.dtype} of {t.qtype.name}")
        if t.axis is None:
            if sc.ndim != 0 or sc.numel() != 1:
                p.append(f"per-tensor quantized tensor carries a scale of shape {tuple(sc.shape)}")
        else:
            if t.axis not in (0, -1):
                p.append(f"axis {t.axis}")
            elif sc.ndim != t.ndim:
                p.append(f"per-axis scale of shape {tuple(sc.shape)} is not aligned with tensor of shape {tuple(t.shape)}")
            else:
                want = [1] * t.ndim
                want[t.axis] = t.shape[t.axis]
                if list(sc.shape) != want:
                    p.append(f"scale shape {tuple(sc.shape)} does not broadcast along declared axis {t.axis} of {tuple(t.shape)}")
        if d.device != t.device or sc.device != t.device:
            p.append("inner tensors on another device")
    elif isinstance(t, QBitsTensor):
        d = t._data
        bits = t.qtype.bits
        if not isinstance(d, PackedTensor):
            p.append(f"payload is a {type(d).__name__}, not a PackedTensor")
        else:
            if d.numel() != t.numel():
                p.append(f"packed payload unpacks to {d.numel()} codes for {t.numel()} elements")
            if d._bits != bits:
                p.append(f"payload packed with {d._bits} bits for qtype {t.qtype.name}")
            rows = d.shape[0]
            if d._data.shape[0] != -(-rows * bits // 8) or d._data.dtype != torch.uint8:
                p.append(f"packed rows {d._data.shape[0]} != ceil({rows}*{bits}/8)")
        zp = t._zeropoint
        if zp.dtype != torch.int8 or tuple(zp.shape) != tuple(sc.shape):
            p.append(f"zeropoint {zp.dtype}{tuple(zp.shape)} vs scale {tuple(sc.shape)}")
        if t.axis not in (0, -1):
            p.append(f"axis {t.axis}")
    # flatten meta must round trip through literal_eval and rebuild an identical tensor
    try:
        names, meta = t.__tensor_flatten__()
        for k, v in meta.items():
            if not isinstance(v, str):
                p.append(f"meta[{k}] is not a string")
            elif k != "qtype":
                ast.literal_eval(v)
        inner = {n: getattr(t, n) for n in names}
        t2 = type(t).__tensor_unflatten__(inner, dict(meta), None, None)
        if tuple(t2.shape) != tuple(t.shape) or t2.qtype != t.qtype or t2.axis != t.axis or t2.dtype != t.dtype:
            p.append("flatten/unflatten does not rebuild the same metadata")
    except Exception as e:  # noqa
        p.append(f"flatten/unflatten raised {type(e).__name__}: {e}")
    return p


def payload_bits(t):
    """Bit content of the code payload (for 'moves never alter codes')."""
    from optimum.quanto import QBitsTensor

    if isinstance(t, QBitsTensor):
        return t._data.unpack().contiguous()
    return num.bits_of(t._data.contiguous())


# ---------------------------------------------------------------------------------------
# partners
# ---------------------------------------------------------------------------------------
def partner(q, kind):
    """A second operand derived deterministically from the current tensor."""
    from optimum.quanto import QBytesTensor, quantize_activation

    tw = twin(q).detach()
    if kind == "plain":
        i = torch.arange(tw.numel(), dtype=torch.float64).reshape(tw.shape)
        return ((i * 0.13) % 1.7 - 0.8).to(tw.dtype)
    if isinstance(q, QBytesTensor) and q.axis is None:
        if kind == "same":
            data = torch.roll(q._data.contiguous().view(torch.int8 if q._data.dtype != torch.int8 else torch.int8).flatten(), 1).reshape(q._data.shape)
            if q._data.dtype != torch.int8:
                # avoid NaN codes: roll the float8 values instead of raw bytes
                data = torch.roll(q._data.contiguous().flatten().to(torch.float32), 1).reshape(q._data.shape).to(q._data.dtype)
            return QBytesTensor(q.qtype, None, data.size(), data.stride(), data, q._scale)
        if kind == "nearscale":
            # the same kind of tensor with a scale one or two units in the last place away (e.g. after a x3 / 3 round trip)
            src = torch.roll(tw.contiguous().flatten(), 2).reshape(tw.shape) * 0.75
            near = (q._scale.to(torch.float64) * (1.0 + 3.0 * _u(q._scale.dtype))).to(q._scale.dtype)
            if bool(near == q._scale):
                return None
            return quantize_activation(src, q.qtype, near)
        if kind == "diffscale":
            src = torch.roll(tw.contiguous().flatten(), 2).reshape(tw.shape) * 0.75
            return quantize_activation(src, q.qtype, (q._scale * 1.5).to(q._scale.dtype))
    if isinstance(q, QBytesTensor) and kind == "otherdtype":
        # same codes, scale stored in another float dtype
        odt = torch.float16 if q.dtype == torch.float32 else torch.float32
        return QBytesTensor(q.qtype, q.axis, q._data.size(), q._data.stride(), q._data.clone(), q._scale.to(odt))
    if isinstance(q, QBytesTensor) and kind == "pertensor" and q.axis is not None:
        sc = q._scale.flatten()[0].clone()
        return QBytesTensor(q.qtype, None, q._data.size(), q._data.stride(), torch.roll(q._data.flatten(), 1).reshape(q._data.shape).contiguous(), sc)
    if kind in ("same", "diffscale", "nearscale", "otherdtype", "pertensor"):
        return None
    raise ValueError(kind)


# ---------------------------------------------------------------------------------------
# events
# ---------------------------------------------------------------------------------------
def _factorizations(n, maxrank=3):
    out = set()
    for a in range(1, n + 1):
        if n % a:
            continue
        out.add((n,))
        out.add((a, n // a))
        m = n // a
        for b in range(1, m + 1):
            if m % b == 0:
                out.add((a, b, m // b))
    return sorted(s for s in out if len(s) <= maxrank)


def events(q, tier="quick"):
    """Finite menu of events enabled on the current quantized tensor (computed from metadata only)."""
    from optimum.quanto import QBitsTensor, QBytesTensor

    S = tuple(q.shape)
    r = len(S)
    n = q.numel()
    ev = []
    isbytes = isinstance(q, QBytesTensor)
    pertensor = isbytes and q.axis is None
    meta = q.device.type == "meta"
    if meta:
        return [("detach",), ("to_cpu_meta",)]
    # ---- data movement
    for shp in _factorizations(n):
        if shp != S:
            ev.append(("view", list(shp)))
            ev.append(("reshape", list(shp)))
    for i in range(r):
        for j in range(i + 1, r):
            ev.append(("transpose", i, j))
    if r == 2:
        ev.append(("t",))
    if r >= 3:
        ev.append(("permute_rev",))
    for d in range(r):
        if S[d] >= 1:
            ev.append(("select", d, 0))
            if S[d] > 1:
                ev.append(("select", d, -1))
        if S[d] >= 2:
            ev.append(("slice_head", d))
            ev.append(("slice_tail", d))
        if S[d] >= 3:
            ev.append(("slice_step", d))
        if S[d] == 1:
            ev.append(("expand", d))
        if S[d] >= 2:
            ev.append(("split", d, 0))
            ev.append(("split", d, 1))
            ev.append(("chunk", d, 1))
    if r < 4:
        for d in range(r + 1):
            ev.append(("unsqueeze", d))
    if any(s == 1 for s in S):
        ev.append(("squeeze",))
    # deepcopy is a life-cycle step judged by C09 (copying a frozen model), not a dispatched tensor operation
    ev += [("contiguous",), ("flatten",), ("clone",), ("detach",), ("to_cpu",), ("data",), ("param",), ("sd_roundtrip",), ("to_meta",)]
    for pk in ("same", "diffscale", "plain", "nearscale"):
        for dim in sorted({0, r - 1}):
            ev.append(("cat", pk, dim))
        ev.append(("stack", pk, 0))
        if r >= 1:
            ev.append(("stack", pk, r))
        ev.append(("lt", pk))
        if isbytes:
            ev.append(("copy_into_q", pk))
        ev.append(("add", pk))
        ev.append(("equal", pk))
    if isbytes:
        ev.append(("copy_into_q", "otherdtype"))
        ev.append(("copy_into_q", "pertensor"))
    for c in ("2.0", "0.5"):
        ev += [("idiv", c), ("imul", c)]
    ev += [("cat3", 0), ("stack3", 0), ("copy_into_plain",)]
    if pertensor:
        ev += [("cat3d", 0), ("stack3d", 0), ("cat4d", 0)]
    if isbytes:
        # in-place update through an alias covering the whole tensor, then observe the base
        for al in ("view_flat", "detach", "unsqueeze0") + (("t",) if r == 2 else ()) + (("transpose",) if r >= 2 else ()):
            for pk in ("same", "diffscale"):
                ev.append(("alias_copy", al, pk))
    # ---- rescaling
    for c in ("2.0", "0.5", "t3", "t1", "t11"):
        ev += [("mul", c), ("rmul", c), ("div", c)]
    ev += [("neg",), ("relu",)]
    for dtn in ("float32", "float16", "bfloat16"):
        if num.DTYPES[dtn] != q.dtype:
            ev.append(("to_dtype", dtn))
    # ---- requantizing
    for dim in sorted({0, -1}):
        ev.append(("softmax", dim))
    ev += [("where", "scalar"), ("where", "plain"), ("where_qcond",)]
    # ---- pass-through
    ev += [("abs",), ("exp",), ("sigmoid",), ("gelu",), ("sum",), ("sum_dim", -1), ("mean",), ("amax",), ("sub_plain",), ("layer_norm",),
           ("log_softmax",), ("topk",), ("cosine",)]
    # ---- contractions
    if r == 2:
        ev += [("mm", "plain"), ("mm", "qact"), ("matmul", "qact")]
    if r == 3:
        ev += [("bmm", "plain"), ("bmm", "qact")]
    if r >= 1 and S[-1] >= 2:
        for wk in ("w_i8", "w_e4m3", "w_i4", "plain"):
            ev.append(("linear", wk, False))
            ev.append(("linear", wk, True))
    if r == 2 and S[1] >= 2:
        ev.append(("linear_as_weight", False))
        ev.append(("linear_as_weight", True))
    return ev


MUTATING = {"copy_into_q", "alias_copy", "idiv", "imul"}


def _scalar(c, dtype):
    if c == "t3":
        return torch.tensor(3.0, dtype=dtype)
    if c == "t1":
        return torch.tensor([0.5], dtype=dtype)  # one element but 1-D: broadcasting applies, it is not a scalar
    if c == "t11":
        return torch.tensor([[2.0]], dtype=dtype)
    return float(c)


def build_call(q, ev):
    """Returns (fn, args, regime, K, tag). `args` may contain quantized tensors; the reference call replaces them by twins."""
    from optimum.quanto import QBitsTensor, quantize_activation, quantize_weight

    name = ev[0]
    S = tuple(q.shape)
    r = len(S)
    dt = q.dtype
    X = "exact"
    if name == "view":
        return (lambda t: t.view(*ev[1])), [q], X, 0, None
    if name == "reshape":
        return (lambda t: t.reshape(*ev[1])), [q], X, 0, None
    if name == "transpose":
        return (lambda t: t.transpose(ev[1], ev[2])), [q], X, 0, None
    if name == "t":
        return (lambda t: t.t()), [q], X, 0, None
    if name == "permute_rev":
        return (lambda t: t.permute(*range(r - 1, -1, -1))), [q], X, 0, None
    if name == "select":
        return (lambda t: t.select(ev[1], ev[2])), [q], X, 0, None
    if name == "slice_head":
        return (lambda t: t.narrow(ev[1], 0, (S[ev[1]] + 1) // 2)), [q], X, 0, None
    if name == "slice_tail":
        return (lambda t: t[(slice(None),) * ev[1] + (slice(1, None),)]), [q], X, 0, None
    if name == "slice_step":
        return (lambda t: t[(slice(None),) * ev[1] + (slice(None, None, 2),)]), [q], X, 0, None
    if name == "expand":
        tgt = list(S)
        tgt[ev[1]] = 2
        return (lambda t: t.expand(*tgt)), [q], X, 0, None
    if name == "split":
        return (lambda t: torch.split(t, (S[ev[1]] + 1) // 2, ev[1])), [q], X, 0, ("piece", ev[2])
    if name == "chunk":
        return (lambda t: torch.chunk(t, 2, ev[1])), [q], X, 0, ("piece", ev[2])
    if name == "unsqueeze":
        return (lambda t: t.unsqueeze(ev[1])), [q], X, 0, None
    if name == "squeeze":
        return (lambda t: t.squeeze()), [q], X, 0, None
    if name == "contiguous":
        return (lambda t: t.contiguous()), [q], X, 0, "copy"
    if name == "flatten":
        return (lambda t: t.flatten()), [q], X, 0, None
    if name == "clone":
        return (lambda t: t.clone()), [q], X, 0, "copy"
    if name == "detach":
        return (lambda t: t.detach()), [q], X, 0, "copy"
    if name in ("to_cpu", "to_cpu_meta"):
        return (lambda t: t.to("cpu")), [q], X, 0, "copy"
    if name == "to_meta":
        return (lambda t: t.to("meta")), [q], "meta", 0, None
    if name == "data":
        return (lambda t: t.data), [q], X, 0, "copy"
    if name == "param":
        return (lambda t: torch.nn.Parameter(t, requires_grad=False).data), [q], X, 0, "copy"
    if name == "deepcopy":
        return (lambda t: copy.deepcopy(t)), [q], X, 0, "copy"
    if name == "sd_roundtrip":
        def sd(t):
            if not is_q(t):
                return t.clone()
            dest = {}
            t.save_to_state_dict(dest, "w.", False)
            for k, v in dest.items():
                if not (type(v) is torch.Tensor or isinstance(v, str)):
                    raise AssertionError(f"state dict value {k} is a {type(v).__name__}")
            return type(t).load_from_state_dict(dict(dest), "w.") if not isinstance(t, QBitsTensor) else QBitsTensor.load_from_state_dict(dict(dest), "w.")
        return sd, [q], X, 0, "copy"
    if name in ("cat", "stack", "lt", "add", "equal", "copy_into_q"):
        p = partner(q, ev[1])
        if p is None:
            return None
        if name == "cat":
            return (lambda a, b: torch.cat([a, b], ev[2])), [q, p], X, 0, None
        if name == "stack":
            return (lambda a, b: torch.stack([a, b], ev[2])), [q, p], X, 0, None
        if name == "lt":
            return (lambda a, b: a < b), [q, p], X, 0, None
        if name == "add":
            return (lambda a, b: a + b), [q, p], X, 0, None
        if name == "equal":
            return (lambda a, b: torch.equal(a, b)), [q, p], X, 0, None
        if name == "copy_into_q":
            return (lambda a, b: a.copy_(b)), [q, p], ("step" if ev[1] == "plain" else ("cast" if ev[1] == "otherdtype" else X)), 0, None
    if name == "alias_copy":
        p = partner(q, ev[2])
        if p is None:
            return None
        kind = ev[1]

        def alias_copy(a, b):
            if kind == "view_flat":
                al, src = a.view(-1), b.reshape(-1)
            elif kind == "detach":
                al, src = a.detach(), b
            elif kind == "unsqueeze0":
                al, src = a.unsqueeze(0), b.unsqueeze(0)
            elif kind == "t":
                al, src = a.t(), b.t()
            else:
                al, src = a.transpose(0, 1), b.transpose(0, 1)
            al.copy_(src)
            return a  # the base must see the update made through its alias

        return alias_copy, [q, p], X, 0, None
    if name == "cat3":
        p = partner(q, "same")
        if p is None:
            return None
        return (lambda a, b: torch.cat([a, b, a], ev[1])), [q, p], X, 0, None
    if name in ("cat3d", "stack3d", "cat4d"):
        # several operands: the first ones share the scale, a later one has another scale
        p = partner(q, "same")
        d = partner(q, "diffscale")
        if p is None or d is None:
            return None
        if name == "cat3d":
            return (lambda a, b, c: torch.cat([a, b, c], ev[1])), [q, p, d], X, 0, None
        if name == "cat4d":
            return (lambda a, b, c: torch.cat([a, b, a, c], ev[1])), [q, p, d], X, 0, None
        return (lambda a, b, c: torch.stack([a, b, c], ev[1])), [q, p, d], X, 0, None
    if name == "stack3":
        p = partner(q, "same")
        if p is None:
            return None
        return (lambda a, b: torch.stack([a, b, a], ev[1])), [q, p], X, 0, None
    if name == "copy_into_plain":
        return (lambda a: torch.zeros(S, dtype=dt).copy_(a)), [q], X, 0, None
    if name == "mul":
        c = _scalar(ev[1], dt)
        return (lambda t: t * c), [q], "round", 0, None
    if name == "rmul":
        c = _scalar(ev[1], dt)
        return (lambda t: c * t), [q], "round", 0, None
    if name == "div":
        c = _scalar(ev[1], dt)
        return (lambda t: t / c), [q], "round", 0, None
    if name in ("idiv", "imul"):
        c = float(ev[1])

        def inplace(t):
            if name == "idiv":
                t /= c
            else:
                t *= c
            return t  # python rebinding semantics: the result of the augmented assignment

        return inplace, [q], "round", 0, None
    if name == "neg":
        return (lambda t: -t), [q], X, 0, None
    if name == "relu":
        return (lambda t: torch.relu(t)), [q], X, 0, None
    if name == "to_dtype":
        tdt = num.DTYPES[ev[1]]
        return (lambda t: t.to(tdt)), [q], "cast", 0, ("to_dtype", ev[1])
    if name == "softmax":
        return (lambda t: torch.softmax(t, ev[1])), [q], "step", 0, None
    if name == "where":
        cond = (torch.arange(q.numel()).reshape(S) % 3 != 0)
        other = 0.0 if ev[1] == "scalar" else partner(q, "plain")
        if ev[1] == "scalar":
            return (lambda t: torch.where(cond, t, torch.tensor(0.0, dtype=dt))), [q], "step", 0, None
        return (lambda t, o: torch.where(cond, t, o)), [q, other], "step", 0, None
    if name == "where_qcond":
        return (lambda t: torch.where(t, t, t)), [q], X, 0, "where_qcond"
    if name == "abs":
        return (lambda t: torch.abs(t)), [q], X, 0, None
    if name == "exp":
        # transcendental kernels may differ by an ulp between memory layouts: rounding regime
        return (lambda t: torch.exp(t)), [q], "trans", 0, None
    if name == "sigmoid":
        return (lambda t: torch.sigmoid(t)), [q], "trans", 0, None
    if name == "gelu":
        return (lambda t: F.gelu(t)), [q], "trans", 0, None
    if name == "sum":
        return (lambda t: t.sum()), [q], "accum", q.numel(), None
    if name == "sum_dim":
        return (lambda t: t.sum(ev[1])), [q], "accum", S[-1] if r else 1, None
    if name == "mean":
        return (lambda t: t.mean()), [q], "accum", q.numel(), None
    if name == "amax":
        return (lambda t: t.amax()), [q], X, 0, None
    if name == "sub_plain":
        p = partner(q, "plain")
        return (lambda a, b: a - b), [q, p], X, 0, None
    if name == "layer_norm":
        return (lambda t: F.layer_norm(t, S[-1:])), [q], "accum_rel", S[-1] if r else 1, None
    if name == "log_softmax":
        return (lambda t: F.log_softmax(t, -1)), [q], "accum_rel", S[-1] if r else 1, None
    if name == "topk":
        return (lambda t: torch.topk(t, 1, -1).values), [q], X, 0, None
    if name == "cosine":
        p = partner(q, "plain")
        return (lambda a, b: F.cosine_similarity(a.flatten(), b.flatten(), 0)), [q, p], "accum_rel", q.numel(), None
    if name in ("mm", "matmul", "bmm"):
        if name == "bmm":
            oshape = (S[0], S[2], 3)
        else:
            oshape = (S[1], 3)
        o = _vals(oshape, dt, -0.9, 0.9)
        if ev[1] == "qact":
            o = quantize_activation(o, num.qt("qint8"), torch.tensor(0.9 / 127, dtype=dt))
        f = {"mm": torch.mm, "matmul": torch.matmul, "bmm": torch.bmm}[name]
        return (lambda a, b: f(a, b)), [q, o], "accum", S[-1], None
    if name == "linear":
        k = S[-1]
        wk = ev[1]
        wf = _vals((3, k), dt, -0.8, 0.8)
        if wk == "w_i8":
            w = quantize_weight(wf, num.qt("qint8"), 0)
        elif wk == "w_e4m3":
            w = quantize_weight(wf, num.qt("qfloat8_e4m3fn"), 0)
        elif wk == "w_i4":
            w = quantize_weight(wf, num.qt("qint4"), 0)
        else:
            w = wf
        b = _vals((3,), dt, -0.5, 0.5) if ev[2] else None
        return (lambda a, ww: F.linear(a, ww, b)), [q, w], "accum", k, None
    if name == "linear_as_weight":
        k = S[1]
        x = _vals((2, k), dt, -1.0, 1.0)
        b = _vals((S[0],), dt, -0.5, 0.5) if ev[1] else None
        return (lambda ww, xx: F.linear(xx, ww, b)), [q, x], "accum", k, None
    raise ValueError(ev)


# ---------------------------------------------------------------------------------------
# comparators
# ---------------------------------------------------------------------------------------
def _u(dtype):
    return {torch.float32: 2.0**-24, torch.float16: 2.0**-11, torch.bfloat16: 2.0**-8, torch.float64: 2.0**-53}.get(dtype, 2.0**-24)


def _tiny(dtype):
    return {torch.float32: 2.0**-149, torch.float16: 2.0**-24, torch.bfloat16: 2.0**-133}.get(dtype, 0.0)


def compare(res, ref, regime, K, args_tw, out_q=None):
    """Returns None if equal under the regime, else a message."""
    if isinstance(ref, bool) or isinstance(res, bool):
        return None if res == ref else f"result {res} != reference {ref}"
    if not isinstance(res, torch.Tensor):
        return f"result is a {type(res).__name__}"
    if tuple(res.shape) != tuple(ref.shape):
        return f"result shape {tuple(res.shape)} != reference shape {tuple(ref.shape)}"
    if res.dtype != ref.dtype:
        return f"result dtype {res.dtype} != reference dtype {ref.dtype}"
    if ref.dtype == torch.bool or not ref.dtype.is_floating_point:
        return None if torch.equal(res, ref) else "values differ"
    a = res.to(torch.float64)
    b = ref.to(torch.float64)
    nan_a, nan_b = torch.isnan(a), torch.isnan(b)
    if bool((nan_a != nan_b).any()):
        return "NaN pattern differs"
    a = torch.where(nan_a, torch.zeros_like(a), a)
    b = torch.where(nan_b, torch.zeros_like(b), b)
    if regime == "exact":
        ok = (a == b) | (nan_a & nan_b)
        if bool(ok.all()):
            return None
        i = tuple((~ok).nonzero()[0].tolist())
        return f"values differ (exact regime): got {float(a[i])!r} want {float(b[i])!r} at {i}"
    u = _u(ref.dtype)
    tiny = _tiny(ref.dtype)
    if regime == "trans":
        # vectorised and scalar transcendental kernels of torch differ by a few ulps between memory layouts
        ok = (a - b).abs() <= 16 * u * b.abs() + 2 * tiny
    elif regime in ("round", "cast"):
        if regime == "cast":
            # a dtype move keeps the codes and converts the scale: the reference value was rounded in the source dtype
            u = max([u] + [_u(t.dtype) for t in args_tw if isinstance(t, torch.Tensor) and t.dtype.is_floating_point])
        # rescaling rounds twice on each side - library fl(fl(scale*c)*code), float twin fl(fl(scale*code)*c) - so the two results may
        # differ by up to 4u relative (plus second-order terms), i.e. two ulps at the bottom of a binade
        tol = 4.5 * u * b.abs() + 2 * tiny
        if out_q is not None and hasattr(out_q, "_data") and out_q.qtype.name in num.float8.QMAX:
            # the new scale is rounded to the dtype: absolute error of one subnormal quantum when it underflows, times |code|
            try:
                codes = num.decode_codes(out_q._data, out_q.qtype.name).abs()
                if codes.shape == b.shape:
                    tol = tol + tiny * torch.nan_to_num(codes, nan=0.0, posinf=0.0)
            except Exception:
                pass
        inf_ok = torch.isinf(b) | torch.isinf(a)
        ok = ((a - b).abs() <= tol) | (inf_ok & ((a == b) | (b.abs() * (1 + 4 * u) >= torch.finfo(ref.dtype).max) | (a.abs() * (1 + 4 * u) >= torch.finfo(ref.dtype).max)))
    elif regime == "step":
        # one step of the output grid around the reference
        if out_q is None or not hasattr(out_q, "_scale") or out_q.qtype.name not in num.float8.QMAX:
            # the operation did not re-quantize (plain result): it must then agree up to rounding
            return compare(res, ref, "round", K, args_tw)
        s = out_q._scale.to(torch.float64)
        qn = out_q.qtype.name
        if qn == "qint8":
            step = s * torch.ones_like(b)
        else:
            mant = 3 if "e4m3" in qn or qn == "qfloat8" else 2
            minsub = 2.0**-9 if mant == 3 else 2.0**-16
            step = torch.maximum(b.abs() * 2.0**-mant, s * minsub)
        qmax = num.float8.QMAX[qn] * s
        bc = torch.clamp(b, -qmax * (1 + 1e-9) - (s if qn == "qint8" else 0), qmax)
        ok = (a - bc).abs() <= step * (1 + 8 * u) + 4 * u * b.abs() + 2 * tiny
    elif regime in ("accum", "accum_rel"):
        mag = sum(float(t.to(torch.float64).abs().max()) if isinstance(t, torch.Tensor) and t.numel() and t.dtype.is_floating_point else 0.0 for t in args_tw)
        mag = max(mag, float(b.abs().max()) if b.numel() else 0.0)
        tol = (K + 4) * u * max(mag, 1e-30) * (max(1.0, float(b.abs().max())) if regime == "accum" else 4.0) + 4 * u * b.abs() + 2 * tiny
        if regime == "accum":
            # contraction: |sum a_i b_i| error <= (K+2) u sum|a_i||b_i| <= (K+2) u K max|a| max|b|
            prod = 1.0
            cnt = 0
            for t in args_tw:
                if isinstance(t, torch.Tensor) and t.numel() and t.dtype.is_floating_point:
                    prod *= max(float(t.to(torch.float64).abs().max()), 1e-30)
                    cnt += 1
            bound = (K + 4) * u * max(K, 1) * (prod if cnt >= 2 else mag)
            tol = bound + 4 * u * b.abs() + 2 * tiny
        ok = (a - b).abs() <= tol
    else:
        raise ValueError(regime)
    if regime in ("trans", "accum", "accum_rel"):
        # equal values (including equal infinities) agree; at the overflow boundary of the dtype one rounding or another
        # summation order decides between the largest finite value and infinity
        fmax = torch.finfo(ref.dtype).max
        t_ = tol if regime != "trans" else 16 * u * b.abs()
        ok = ok | (a == b) | (torch.isinf(a) & (b.abs() + t_ >= fmax) & (torch.sign(a) == torch.sign(b))) | (torch.isinf(b) & (a.abs() + t_ >= fmax) & (torch.sign(a) == torch.sign(b)))
    if bool(ok.all()):
        return None
    i = tuple((~ok).nonzero()[0].tolist())
    return f"values differ ({regime} regime): got {float(a[i])!r} want {float(b[i])!r} at {i}"


# ---------------------------------------------------------------------------------------
# one transition
# ---------------------------------------------------------------------------------------
def run_transition(q, ev):
    """Execute event `ev` on quantized tensor `q` and on the float twins.

    Returns dict: status in {skip, ref_invalid, ok, terminal}, next (QTensor or None), c05 (list of msgs), c06 (list of msgs),
    outcome (short string for the distinct-outcome count).
    """
    out = {"status": "ok", "next": None, "c05": [], "c06": [], "outcome": ""}
    call = build_call(q, ev)
    if call is None:
        out["status"] = "skip"
        return out
    fn, args, regime, K, tag = call
    try:
        targs = map_args(args, twin)  # twin() always builds fresh storage, with the wrapper's (possibly overlapping) layout
    except MetaBroken as e:
        out["status"] = "meta_broken"
        out["c06"].append(str(e))
        return out
    # reference (float program)
    if regime == "meta":
        ref = None
        ref_err = None
    else:
        try:
            with torch.no_grad():
                ref = fn(*targs)
            ref_err = None
        except Exception as e:  # noqa
            ref, ref_err = None, e
    if ref_err is not None:
        # the float program is invalid: nothing is required of the quantized program (it is still run for the metadata invariant)
        out["status"] = "ref_invalid"
        out["outcome"] = "ref_invalid"
        return out
    pre_bits = payload_bits(q) if tag == "copy" or (isinstance(tag, tuple) and tag[0] == "to_dtype") else None
    try:
        with torch.no_grad():
            res = fn(*args)
    except Exception as e:  # noqa
        if tag == "where_qcond" and isinstance(e, NotImplementedError):
            out["status"] = "terminal"
            out["outcome"] = "documented_refusal"
            return out
        from optimum.quanto import QBitsTensor

        if isinstance(tag, tuple) and tag[0] == "to_dtype" and isinstance(q, QBitsTensor) and isinstance(e, ValueError):
            out["status"] = "terminal"
            out["outcome"] = "documented_refusal"
            return out
        out["c05"].append(f"raised {type(e).__name__}: {str(e)[:200]} although the float program is valid")
        out["status"] = "terminal"
        out["outcome"] = "raised:" + type(e).__name__
        return out
    if tag == "where_qcond":
        out["status"] = "terminal"
        out["outcome"] = "where_qcond_accepted"
        return out
    # pieces of list results
    piece = None
    if isinstance(tag, tuple) and tag[0] == "piece":
        piece = tag[1]
        if not isinstance(res, (list, tuple)) or len(res) != len(ref):
            out["c05"].append(f"returned {type(res).__name__} of length {len(res) if hasattr(res, '__len__') else '?'} instead of {len(ref)} pieces")
            out["status"] = "terminal"
            return out
        pairs = list(zip(res, ref))
    else:
        pairs = [(res, ref)]
    nxt = None
    for idx, (rs, rf) in enumerate(pairs):
        rq = rs if is_q(rs) else None
        if rq is not None:
            for m in check_meta(rq):
                out["c06"].append(m)
        if regime == "meta":
            # metadata-only device: shape/dtype/qtype must survive, dequantize must give a meta tensor of the same shape
            if rq is None:
                out["c06"].append("to('meta') did not return a quantized tensor")
            else:
                if tuple(rq.shape) != tuple(q.shape) or rq.qtype != q.qtype or rq.dtype != q.dtype or rq.device.type != "meta":
                    out["c06"].append(f"to('meta') changed metadata: {tuple(rq.shape)} {rq.qtype} {rq.dtype} {rq.device}")
            continue
        try:
            val = rs.dequantize() if rq is not None else rs
        except Exception as e:  # noqa
            out["c05"].append(f"result cannot be dequantized: {type(e).__name__}: {str(e)[:160]}")
            continue
        if rq is not None and tuple(val.shape) != tuple(rq.shape):
            # metadata broken: C06 already recorded; value comparison uses the dequantized value
            pass
        msg = compare(val, rf, regime, K, targs, out_q=rq)
        if msg is not None and ev[0] == "neg" and rq is not None and q.qtype.name == "qint8" and tuple(val.shape) == tuple(rf.shape):
            # int8 negation of code -128 is not representable: classify separately (known finding F-C05-1)
            mism = val.to(torch.float64) != rf.to(torch.float64)
            try:
                at_min = (q._data == -128).reshape(mism.shape) if q._data.numel() == mism.numel() else None
                if at_min is not None and bool((mism == (mism & at_min)).all()):
                    msg = "min_code_negation: " + msg
            except Exception:
                pass
        if msg is not None:
            out["c05"].append(msg + (f" (piece {idx})" if piece is not None else ""))
        if rq is not None and (piece is None or idx == piece):
            nxt = rq
    # transition invariants of C06
    if nxt is not None and tag == "copy" and pre_bits is not None:
        try:
            post = payload_bits(nxt)
            if post.shape != pre_bits.shape or not torch.equal(post, pre_bits):
                out["c06"].append(f"{ev[0]} altered the code payload")
        except Exception as e:  # noqa
            out["c06"].append(f"payload unreadable after {ev[0]}: {type(e).__name__}: {e}")
    if nxt is not None and isinstance(tag, tuple) and tag[0] == "to_dtype":
        post = payload_bits(nxt)
        if post.shape != pre_bits.shape or not torch.equal(post, pre_bits) or nxt.qtype != q.qtype:
            out["c06"].append("dtype move altered the codes or the qtype")
        if nxt._scale.dtype != num.DTYPES[tag[1]] or not num.same_bits(nxt._scale, q._scale.to(num.DTYPES[tag[1]])):
            out["c06"].append("dtype move changed more than the dtype of the scale")
    out["next"] = nxt
    out["status"] = "ok" if nxt is not None else "terminal"
    out["outcome"] = ("q" if nxt is not None else "plain") + (":bad" if out["c05"] or out["c06"] else "")
    return out


def rebuild(init, history):
    """Fresh real objects: construct the initial tensor and replay the history (no oracle)."""
    q = make_initial(init)
    for ev in history:
        call = build_call(q, tuple(ev))
        fn, args, regime, K, tag = call
        with torch.no_grad():
            res = fn(*args)
        if isinstance(tag, tuple) and tag[0] == "piece":
            res = res[tag[1]]
        q = res
    return q


def _journal(text):
    from .pool import journal

    journal(text)


def expand_task(task):
    """Expand a slice of the frontier. task = {mode, tier, items: [(init, history, expected_hash)]}"""
    results = []
    tier = task.get("tier", "quick")
    for init, history, want_hash in task["items"]:
        history = [tuple(e) if isinstance(e, list) else e for e in history]
        history = [tuple(tuple(x) if isinstance(x, list) else x for x in e) for e in history]
        q = rebuild(init, history)
        h = content_hash(q)
        if want_hash is not None and h != want_hash:
            results.append({"init": init, "history": history, "nondeterminism": [want_hash, h], "trans": []})
            continue
        ih = content_hash_scale(make_initial(init))
        trans = []
        for ev in events(q, tier):
            if task.get("only_event") is not None and list(ev) != list(task["only_event"]):
                continue
            if any(sk.get("init") == init and sk.get("history") == [list(e) for e in history] and sk.get("event") == list(ev) for sk in task.get("skip", [])):
                continue
            qq = rebuild(init, history) if ev[0] in MUTATING else q
            _journal(repr({"init": init, "history": [list(e) for e in history], "event": list(ev)}))
            o = run_transition(qq, ev)
            rec = {"ev": list(ev), "status": o["status"], "c05": o["c05"][:3], "c06": o["c06"][:3], "outcome": o["outcome"]}
            if o["next"] is not None:
                nq = o["next"]
                try:
                    rec["key"] = repr(canon_key(nq, ih))
                    rec["hash"] = content_hash(nq)
                    rec["numel"] = nq.numel()
                    rec["ndim"] = nq.ndim
                    rec["cls"] = type(nq).__name__
                    rec["qtype"] = nq.qtype.name
                    rec["axis"] = nq.axis
                except Exception as e:  # noqa
                    rec["c06"].append(f"result cannot be inspected: {type(e).__name__}: {e}")
            trans.append(rec)
        src = {"cls": type(q).__name__, "qtype": q.qtype.name, "axis": q.axis, "pertensor": q.axis is None}
        results.append({"init": init, "history": [list(e) for e in history], "trans": trans, "src": src})
    return results


def ladder_task(task):
    """Depth ladder (mode 'long': one fixed long program - events drawn from the enabled menu by a linear congruential sequence with
    fixed constants - from a small initial tensor) and size ladder (mode 'large': every enabled event once on a large initial
    tensor, then a short fixed walk). Every step goes through the same run_transition oracle as the breadth-first search."""
    init, mode, tier = task["init"], task["mode"], task.get("tier", "quick")
    recs = []

    def record(history, ev, q, o):
        src = {"cls": type(q).__name__, "qtype": q.qtype.name, "axis": q.axis, "pertensor": q.axis is None}
        recs.append({"init": init, "history": [list(e) for e in history], "ev": list(ev), "status": o["status"], "c05": o["c05"][:3], "c06": o["c06"][:3], "outcome": o["outcome"], "src": src})

    def menu(q):
        evs = events(q, tier)
        if q.numel() > 4096:
            # reshapes of a large tensor: keep a handful of factorizations (the first, the last and three in between)
            rs = [e for e in evs if e[0] in ("view", "reshape")]
            keep = set()
            if rs:
                idx = sorted({0, len(rs) // 4, len(rs) // 2, 3 * len(rs) // 4, len(rs) - 1, len(rs) - 2})
                keep = {id(rs[i]) for i in idx if 0 <= i < len(rs)}
            evs = [e for e in evs if e[0] not in ("view", "reshape") or id(e) in keep]
        return evs

    history = []
    q = make_initial(init)
    if task.get("only") is not None:
        hist = [tuple(tuple(x) if isinstance(x, list) else x for x in e) for e in task["only"]["history"]]
        ev = tuple(tuple(x) if isinstance(x, list) else x for x in task["only"]["event"])
        q = rebuild(init, hist)
        record(hist, ev, q, run_transition(q, ev))
        return recs
    if mode == "large":
        for ev in menu(q):
            qq = rebuild(init, []) if ev[0] in MUTATING else q
            _journal(repr({"init": init, "history": [], "event": list(ev)}))
            record([], ev, qq, run_transition(qq, ev))
        q = make_initial(init)
    x = 99991 + 7919 * task.get("path", 0)
    maxn = task.get("max_numel", 256)
    for _ in range(task["length"]):
        evs = menu(q)
        nxt = None
        for _try in range(6):
            x = (x * 1103515245 + 12345) % (1 << 31)
            ev = evs[(x >> 8) % len(evs)]
            _journal(repr({"init": init, "history": [list(e) for e in history], "event": list(ev)}))
            o = run_transition(q, ev)
            if o["status"] == "skip":
                continue
            record(history, ev, q, o)
            n = o["next"]
            if ev[0] in MUTATING and (n is None or o["c05"] or o["c06"]):
                q = rebuild(init, history)  # the in-place event may have damaged the current object
            if n is not None and not o["c06"] and 0 < n.numel() <= maxn and n.ndim <= 4 and n.device.type != "meta":
                nxt = (ev, n)
                break
        if nxt is None:
            continue
        history = history + [nxt[0]]
        q = nxt[1]
    return recs


# ---------------------------------------------------------------------------------------
# BFS driver (runs in the master)
# ---------------------------------------------------------------------------------------
def _sub(msg):
    if msg.startswith("raised"):
        return "raised:" + msg.split()[1].rstrip(":")
    if msg.startswith("min_code_negation"):
        return "min_code_negation"
    for k, s in (("result shape", "shape"), ("result dtype", "dtype"), ("values differ", "values"), ("NaN pattern", "values"), ("returned", "shape"),
                 ("reports shape", "stale_shape"), ("reports dtype", "stale_dtype"), ("payload holds", "payload_count"), ("payload dtype", "payload_dtype"),
                 ("scale shape", "scale_shape"), ("per-tensor quantized tensor carries", "scale_shape"), ("per-axis scale", "scale_shape"),
                 ("altered the code", "codes_altered"), ("dtype move", "dtype_move"), ("flatten/unflatten", "flatten"), ("to('meta')", "meta_device"),
                 ("dequantize() raised", "dequantize_raised"), ("dequantize() has shape", "stale_shape"), ("result cannot be dequantized", "dequantize_raised"),
                 ("result of a re-quantizing", "not_requantized"), ("scale dtype", "scale_dtype")):
        if msg.startswith(k) or k in msg[:60]:
            return s
    return "other"


def bfs(ctx, which, depth, tier, pid, max_numel=64, max_rank=4):
    from .pool import HarnessError
    from .report import violation
    from .run import Agg

    agg = Agg()
    seen = {}
    frontier = [(name, [], None) for name in INITIALS]
    for name in INITIALS:
        seen[("init", name)] = (name, [])
    outcomes = {}
    transitions = 0
    pruned = 0
    levels = []
    ops_seen = {}
    for level in range(depth):
        if not frontier:
            break
        # VERIF_SEED rotates the order of the frontier only
        rot = ctx.seed % len(frontier)
        frontier = frontier[rot:] + frontier[:rot]
        CH = max(1, min(8, len(frontier) // (ctx.pool.n * 3) + 1))
        tasks = [{"tier": tier, "items": frontier[i:i + CH]} for i in range(0, len(frontier), CH)]
        nxt = []
        pending = tasks
        crashes_this_level = 0
        batches = []
        while pending:
            results = ctx.map("expand_task", pending, label=f"level {level + 1}")
            batches.append((pending, results))
            requeue = []
            for task, (kind, val) in zip(pending, results):
                if kind != "crash":
                    continue
                crashes_this_level += 1
                j = val.get("journal")
                try:
                    jc = ast.literal_eval(j) if j else None
                except Exception:
                    jc = None
                case = jc or {"init": task["items"][0][0], "history": task["items"][0][1], "event": None}
                op = case["event"][0] if case.get("event") else "?"
                if which == "c05":
                    agg.violations.append(violation(pid, case, {"kind": which, "sub": "worker_crash", "op": op},
                                                    f"worker_crash: a worker died (signal {val.get('signal')}) while executing {case}"))
                # the states of the slice are re-queued one by one, skipping the crashing transition, so that they are still explored
                if jc is not None and crashes_this_level <= 40:
                    for it in task["items"]:
                        requeue.append({"tier": tier, "items": [it], "skip": task.get("skip", []) + [jc]})
            pending = requeue
        for task, (kind, val) in [(t, r) for (ts, rs) in batches for t, r in zip(ts, rs)]:
            if kind == "crash":
                continue
            for st in val:
                if "nondeterminism" in st:
                    # the same program, replayed on fresh objects in another process, produced a different tensor: the library's
                    # result depends on hidden process-global state (on the unchanged tree replay is deterministic)
                    agg.violations.append(violation(pid, {"init": st["init"], "history": st["history"], "event": None}, {"kind": which, "sub": "nondeterministic_replay", "op": st["history"][-1][0] if st["history"] else "?"},
                                                    f"nondeterministic_replay: program {st['history']} from {st['init']} produced tensors with different content in two executions (hashes {st['nondeterminism']}): hidden state in the library"))
                    continue
                src = st["src"]
                for tr in st["trans"]:
                    if tr["status"] == "skip":
                        continue
                    transitions += 1
                    ops_seen.setdefault(tr["ev"][0], set()).add(src["cls"])
                    outcomes[tr["outcome"]] = outcomes.get(tr["outcome"], 0) + 1
                    msgs = tr[which]
                    for m in msgs:
                        f = {"kind": which, "sub": _sub(m), "op": tr["ev"][0], "src_cls": src["cls"], "src_qtype": src["qtype"], "src_pertensor": src["pertensor"]}
                        agg.violations.append(violation(pid, {"init": st["init"], "history": st["history"], "event": tr["ev"]}, f,
                                                        f"{_sub(m)}: {tr['ev']} on {src['cls']}({src['qtype']},axis={src['axis']}) after {st['history']} from {st['init']}: {m}"))
                    if "key" in tr and not tr["c06"]:
                        if tr["numel"] > max_numel or tr["ndim"] > max_rank or tr["numel"] == 0:
                            pruned += 1
                            continue
                        if tr["key"] not in seen:
                            seen[tr["key"]] = (st["init"], st["history"] + [tr["ev"]])
                            nxt.append((st["init"], st["history"] + [tr["ev"]], tr["hash"]))
        levels.append({"depth": level + 1, "expanded_states": len(frontier), "new_states": len(nxt)})
        frontier = nxt
    # ---- depth and size ladders (fixed long programs / large initial tensors), same oracle, no de-duplication
    ltasks = []
    for name in INITIALS:
        for p in range(2 if tier == "quick" else 6):
            ltasks.append({"mode": "long", "init": name, "path": p, "length": 40 if tier == "quick" else 150, "tier": tier})
    for name in BIG_INITIALS:
        ltasks.append({"mode": "large", "init": name, "path": 0, "length": 6 if tier == "quick" else 20, "tier": tier, "max_numel": 1 << 22})
    ladder_steps = {"long": 0, "large": 0}
    lres = ctx.map("ladder_task", ltasks, label="ladders")
    for task, (kind, val) in zip(ltasks, lres):
        if kind == "crash":
            j = val.get("journal")
            try:
                jc = ast.literal_eval(j) if j else None
            except Exception:
                jc = None
            case = jc or {"init": task["init"], "history": [], "event": None}
            if which == "c05":
                agg.violations.append(violation(pid, dict(case, ladder=task), {"kind": which, "sub": "worker_crash", "op": (case.get("event") or ["?"])[0]},
                                                f"worker_crash: a worker died (signal {val.get('signal')}) in the {task['mode']} ladder while executing {case}"))
            continue
        for tr in val:
            if tr["status"] == "skip":
                continue
            transitions += 1
            ladder_steps[task["mode"]] += 1
            src = tr["src"]
            ops_seen.setdefault(tr["ev"][0], set()).add(src["cls"])
            outcomes[tr["outcome"]] = outcomes.get(tr["outcome"], 0) + 1
            for m in tr[which]:
                f = {"kind": which, "sub": _sub(m), "op": tr["ev"][0], "src_cls": src["cls"], "src_qtype": src["qtype"], "src_pertensor": src["pertensor"]}
                agg.violations.append(violation(pid, {"init": tr["init"], "history": tr["history"], "event": tr["ev"]}, f,
                                                f"{_sub(m)}: {tr['ev']} on {src['cls']}({src['qtype']},axis={src['axis']}) after {tr['history']} from {tr['init']} ({task['mode']} ladder): {m}"))
    agg.points = len(seen)
    agg.calls = transitions
    agg.evals = transitions
    agg.nontrivial = sum(n for k, n in outcomes.items() if k not in ("ref_invalid",))
    cov = {
        "ladders": {"long_program_steps": ladder_steps["long"], "long_programs": sum(1 for t in ltasks if t["mode"] == "long"), "large_tensor_steps": ladder_steps["large"],
                    "large_initial_tensors": {k: list(v[2]) for k, v in BIG_INITIALS.items()}},
        "states": len(seen),
        "transitions": transitions,
        "traces_validated_against_impl": transitions,
        "max_depth_completed": len(levels),
        "frontier_emptied": not frontier,
        "unexpanded_frontier": len(frontier),
        "levels": levels,
        "pruned_by_caps": pruned,
        "distinct_outcomes": dict(sorted(outcomes.items())),
        "ops_executed": {k: sorted(v) for k, v in sorted(ops_seen.items())},
        "exhaustive": True,
        "bounds": {"depth": depth, "max_numel": max_numel, "max_rank": max_rank, "initial_tensors": list(INITIALS)},
        "samples": [{"init": i, "program": h} for (i, h) in list(seen.values())[len(INITIALS) + 5:len(INITIALS) + 200:40]][:6] or [{"init": "act_i8_2d", "program": []}],
    }
    if len(outcomes) < 3:
        raise HarnessError(f"vacuity guard: only {len(outcomes)} distinct outcomes")
    return agg, cov


def replay_case(case, which):
    from .report import violation

    init, hist, ev = case["init"], case["history"], case["event"]
    hist = [tuple(tuple(x) if isinstance(x, list) else x for x in e) for e in hist]
    if ev is None:
        rebuild(init, hist)
        return []
    ev = tuple(tuple(x) if isinstance(x, list) else x for x in ev)
    q = rebuild(init, hist)
    o = run_transition(q, ev)
    return [violation("C05" if which == "c05" else "C06", case, {"kind": which, "sub": _sub(m), "op": ev[0]}, m) for m in o[which]]
