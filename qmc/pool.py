"""Crash-attributing worker pool.

Each worker is a separate spawned process that imports the tree under test once and then
executes tasks `(module, function, payload)` one at a time. The master records which task
a worker is executing *before* it starts, so that a worker killed by a signal (this torch
build segfaults in some private CPU kernels) is attributed to exactly that task, reported
as a crash result for it, and the worker is restarted. Results keep the order of tasks.
"""
import importlib
import multiprocessing as mp
import os
import signal
import time
import traceback
from multiprocessing.connection import wait as mp_wait


class HarnessError(Exception):
    pass


JOURNAL_DIR = os.path.join(os.path.dirname(os.path.abspath(__file__)), "..", ".cache", "journal")
_journal_fh = None


def journal(text):
    """Called by check code inside a worker right before executing a case: the last line survives a crash."""
    global _journal_fh
    if _journal_fh is None:
        os.makedirs(JOURNAL_DIR, exist_ok=True)
        _journal_fh = open(os.path.join(JOURNAL_DIR, str(os.getpid())), "w")
    _journal_fh.seek(0)
    _journal_fh.truncate()
    _journal_fh.write(text)
    _journal_fh.flush()


def read_journal(pid):
    try:
        with open(os.path.join(JOURNAL_DIR, str(pid))) as f:
            return f.read()
    except OSError:
        return None


def _worker_main(conn, threads):
    try:
        signal.signal(signal.SIGINT, signal.SIG_IGN)
        from qmc import loader

        loader.setup(threads=threads)
        conn.send(("ready", os.getpid()))
    except Exception:
        conn.send(("boot_error", traceback.format_exc()))
        return
    mods = {}
    while True:
        try:
            msg = conn.recv()
        except EOFError:
            return
        if msg is None:
            return
        modname, funcname, payload = msg
        try:
            mod = mods.get(modname)
            if mod is None:
                mod = mods[modname] = importlib.import_module(modname)
            res = getattr(mod, funcname)(payload)
            conn.send(("ok", res))
        except BaseException:
            conn.send(("error", traceback.format_exc()))


class _W:
    def __init__(self, ctx, threads):
        self.parent, child = ctx.Pipe()
        self.proc = ctx.Process(target=_worker_main, args=(child, threads), daemon=True)
        self.proc.start()
        child.close()
        self.task = None  # index of task being executed
        self.ready = False
        self.t_start = None


class Pool:
    def __init__(self, nworkers=None, threads=1, task_timeout=1800):
        self.n = nworkers or int(os.environ.get("QMC_WORKERS", "0")) or min(16, os.cpu_count() or 4)
        self.threads = threads
        self.ctx = mp.get_context("spawn")
        self.workers = []
        self.task_timeout = task_timeout
        self.crashes = 0

    def _spawn(self):
        w = _W(self.ctx, self.threads)
        self.workers.append(w)
        return w

    def start(self, n=None):
        n = n or self.n
        while len(self.workers) < n:
            self._spawn()

    def close(self):
        for w in self.workers:
            try:
                w.parent.send(None)
            except Exception:
                pass
        for w in self.workers:
            w.proc.join(timeout=2)
            if w.proc.is_alive():
                w.proc.kill()
        self.workers = []

    def map(self, modname, funcname, payloads, progress=None):
        """Run func(payload) for each payload. Returns list of ('ok', result) | ('crash', info)."""
        payloads = list(payloads)
        results = [None] * len(payloads)
        nxt = 0
        done = 0
        self.start(min(self.n, max(1, len(payloads))))
        idle = []

        def assign(w):
            nonlocal nxt
            if nxt < len(payloads):
                w.task = nxt
                w.t_start = time.time()
                w.parent.send((modname, funcname, payloads[nxt]))
                nxt += 1
            else:
                w.task = None

        for w in self.workers:
            if w.ready and w.task is None:
                assign(w)
        while done < len(payloads):
            conns = {w.parent: w for w in self.workers if (w.task is not None or not w.ready)}
            if not conns:
                raise HarnessError("pool stalled: no worker busy but tasks remain")
            ready = mp_wait(list(conns.keys()), timeout=5.0)
            now = time.time()
            for w in list(self.workers):
                if w.task is not None and w.t_start and now - w.t_start > self.task_timeout:
                    w.proc.kill()
            for c in ready:
                w = conns[c]
                try:
                    kind, val = c.recv()
                except (EOFError, ConnectionResetError, OSError):
                    # worker died
                    w.proc.join(timeout=5)
                    code = w.proc.exitcode
                    self.workers.remove(w)
                    if w.task is None:
                        raise HarnessError(f"worker died while idle/booting (exit {code})")
                    self.crashes += 1
                    results[w.task] = ("crash", {"exitcode": code, "signal": -code if code and code < 0 else None, "journal": read_journal(w.proc.pid)})
                    done += 1
                    if progress:
                        progress(done, len(payloads))
                    if nxt < len(payloads):
                        self._spawn()
                    continue
                if kind == "ready":
                    w.ready = True
                    assign(w)
                elif kind == "boot_error":
                    raise HarnessError("worker failed to import the tree under test:\n" + val)
                elif kind == "ok":
                    results[w.task] = ("ok", val)
                    done += 1
                    if progress:
                        progress(done, len(payloads))
                    assign(w)
                elif kind == "error":
                    raise HarnessError(f"harness exception in {modname}.{funcname} task {w.task}:\n{val}")
        return results
