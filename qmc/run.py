"""Driver:  python -m qmc.run <ID> [--tier quick|thorough] [--replay FILE]

exit 0  property held on everything explored (known findings are printed as KNOWN-FINDING lines)
exit 1  VIOLATION property=<ID> replay=<path>
exit 2  harness error (vacuity guard failed, nondeterminism, build failure ...)
"""
import argparse
import importlib
import json
import os
import sys
import traceback

from . import report
from .pool import HarnessError, Pool


class Ctx:
    def __init__(self, pid, tier, seed):
        self.pid = pid
        self.tier = tier
        self.seed = seed
        self.pool = Pool()
        self.timer = report.Timer()
        self.modname = f"qmc.checks.{pid.lower()}"

    def map(self, funcname, payloads, label=""):
        last = [0]

        def prog(done, total):
            if total >= 20 and (done * 10) // total != last[0]:
                last[0] = (done * 10) // total
                report.log(f"[{self.pid}] {label} {done}/{total} tasks  {self.timer.s():.0f}s")

        return self.pool.map(self.modname, funcname, payloads, progress=prog)


class Agg:
    """Aggregate of per-task results."""

    def __init__(self):
        self.evals = 0
        self.nontrivial = 0
        self.points = 0
        self.calls = 0
        self.violations = []
        self.nviol_total = 0
        self.samples = []
        self.counters = {}
        self.keys = set()

    def add(self, r):
        self.evals += int(r.get("evals", 0))
        self.nontrivial += int(r.get("nontrivial", 0))
        self.points += int(r.get("points", 0))
        self.calls += int(r.get("calls", 0))
        vs = r.get("violations", [])
        self.nviol_total += int(r.get("nviol", len(vs)))
        self.violations.extend(vs)
        for s in r.get("samples", []):
            if len(self.samples) < 12:
                self.samples.append(s)
        for k, v in r.get("counters", {}).items():
            self.counters[k] = self.counters.get(k, 0) + v
        for k in r.get("keys", []):
            self.keys.add(k)


def default_main(mod, ctx):
    tasks = mod.plan(ctx.tier, ctx.seed)
    # VERIF_SEED only rotates the order in which shards are handed to workers
    if tasks:
        rot = ctx.seed % len(tasks)
        order = list(range(rot, len(tasks))) + list(range(0, rot))
    else:
        order = []
    results = ctx.map("run_task", [tasks[i] for i in order], label="shards")
    agg = Agg()
    for i, (kind, val) in zip(order, results):
        if kind == "ok":
            agg.add(val)
        else:
            cv = mod.crash_violation(tasks[i], val) if hasattr(mod, "crash_violation") else None
            if cv is None:
                raise HarnessError(f"worker crashed ({val}) in task {tasks[i]!r} and the check does not attribute crashes")
            agg.violations.extend(cv)
            agg.nviol_total += len(cv)
            agg.counters["worker_crashes"] = agg.counters.get("worker_crashes", 0) + 1
    coverage = mod.coverage(agg, ctx.tier, tasks)
    return agg, coverage


def finish(mod, ctx, agg, coverage):
    pid = ctx.pid
    new, hit = report.split_known(pid, agg.violations)
    if os.environ.get("QMC_SAVE_FINDINGS"):
        # maintenance mode (never used by the registered commands): store one replayable representative per known finding
        fdir = os.path.join(report.VERIF, "findings")
        os.makedirs(fdir, exist_ok=True)
        done = set()
        for v in agg.violations:
            for k in report.load_known():
                if k["property"] == pid and k["id"] not in done and report._match(k["match"], v["fields"]):
                    done.add(k["id"])
                    with open(os.path.join(fdir, f"{pid}-{k['id']}.json"), "w") as f:
                        json.dump(v, f, indent=1, sort_keys=True)
    # group new violations into classes, confirm one representative of each by replay
    classes = {}
    for v in new:
        classes.setdefault(report.class_key(v), []).append(v)
    hist = {}
    for v in new:
        k = f"{v['fields'].get('kind')}/{v['fields'].get('sub')}"
        hist[k] = hist.get(k, 0) + 1
    if hist:
        report.log(f"[{pid}] new violation histogram (kind/sub): " + ", ".join(f"{k}={n}" for k, n in sorted(hist.items())))
    unreproduced = []
    confirmed = []
    reps = [vs[0] for vs in classes.values()]
    # violations that are by nature not reproducible by a single-case replay (hidden process state) are reported as they are
    noreplay = [v for v in reps if v["fields"].get("sub") in ("nondeterministic_replay",)]
    reps = [v for v in reps if v not in noreplay]
    confirmed.extend(noreplay)
    max_confirm = 24
    if reps and hasattr(mod, "replay") and not getattr(mod, "NO_RECONFIRM", False):
        res = ctx.map("replay_task", [v["case"] for v in reps[:max_confirm]], label="confirm")
        for v, (kind, val) in zip(reps[:max_confirm], res):
            if kind == "crash" or (kind == "ok" and val):
                confirmed.append(v)
            else:
                unreproduced.append(v)
        confirmed.extend(reps[max_confirm:])
    else:
        confirmed = reps
    ctx.pool.close()
    coverage = dict(coverage)
    coverage.setdefault("evaluations", agg.evals)
    coverage.setdefault("distinct_nontrivial", agg.nontrivial)
    coverage.setdefault("samples", agg.samples)
    coverage.setdefault("explanation", "exhaustive=true refers to the finite space described in 'rule' and 'bounds' (every case of it was executed against the real code); the ladder cases "
                        "(large shapes, repetitions, many live objects, long fixed histories; DESIGN.md 7.2) are fixed finite lists that were executed completely too, but they are sparse probes: "
                        "sizes, counts and histories between or beyond them are not covered")
    coverage["known_findings_observed"] = {k: n for k, (_, n) in hit.items()}
    coverage["violation_classes"] = len(classes)
    coverage["worker_crashes"] = ctx.pool.crashes
    path = report.write_evidence(
        pid, ctx.tier, ctx.seed, getattr(mod, "LEVEL", "model_checking"), coverage,
        getattr(mod, "ASSUMPTIONS", []), ctx.timer.s(), len(new),
    )
    ok, err = report.validate_evidence(path)
    for kid, (k, n) in sorted(hit.items()):
        print(f"KNOWN-FINDING: property={pid} {kid} {k['what']} [{n} case(s) this run]")
    if not ok:
        print(f"HARNESS-ERROR: evidence file does not validate: {err}")
        return 2
    if unreproduced:
        for v in unreproduced:
            p = report.write_replay(pid, v)
            print(f"HARNESS-ERROR: unreproduced violation (nondeterminism?) {v['msg']} replay={p}")
        return 2
    if confirmed:
        for v in confirmed[:40]:
            p = report.write_replay(pid, v)
            n = len(classes[report.class_key(v)])
            print(f"VIOLATION property={pid} replay={p}  # {v['msg'][:300]} ({n} case(s))")
        if len(confirmed) > 40:
            print(f"... and {len(confirmed) - 40} more violation classes")
        return 1
    print(
        f"OK property={pid} tier={ctx.tier} evaluations={coverage['evaluations']} "
        f"nontrivial={coverage['distinct_nontrivial']} exhaustive={coverage.get('exhaustive')} wall={ctx.timer.s():.1f}s"
    )
    return 0


def main(argv=None):
    ap = argparse.ArgumentParser()
    ap.add_argument("pid")
    ap.add_argument("--tier", default=os.environ.get("VERIF_TIER", "quick"), choices=["quick", "thorough"])
    ap.add_argument("--replay", default=None)
    a = ap.parse_args(argv)
    pid = a.pid.upper()
    try:
        seed = int(os.environ.get("VERIF_SEED", "0") or 0)
    except ValueError:
        seed = 0
    ctx = Ctx(pid, a.tier, seed)
    try:
        from . import loader

        loader.build_cpp_ext()  # once, in the master, before workers need it
        loader.setup()
        mod = importlib.import_module(ctx.modname)
        if a.replay:
            if hasattr(mod, "prepare"):
                mod.prepare(ctx)
            v = json.load(open(a.replay))
            res = ctx.pool.map(ctx.modname, "replay_task", [v["case"]])
            ctx.pool.close()
            kind, val = res[0]
            if kind == "crash":
                print(f"VIOLATION property={pid} replay={a.replay}  # worker crashed: {val}")
                return 1
            if val:
                for x in val[:5]:
                    print(f"VIOLATION property={pid} replay={a.replay}  # {x['msg'][:400]}")
                return 1
            print(f"OK property={pid} replay={a.replay} (no violation)")
            return 0
        # replay artefacts of earlier runs of this property are stale
        import glob

        for f in glob.glob(os.path.join(report.REPLAY_DIR, f"{pid}-*.json")):
            try:
                os.unlink(f)
            except OSError:
                pass
        if hasattr(mod, "prepare"):
            mod.prepare(ctx)
        if hasattr(mod, "main"):
            agg, coverage = mod.main(ctx)
        else:
            agg, coverage = default_main(mod, ctx)
        return finish(mod, ctx, agg, coverage)
    except HarnessError as e:
        ctx.pool.close()
        print(f"HARNESS-ERROR: {e}")
        return 2
    except Exception:
        ctx.pool.close()
        print("HARNESS-ERROR: " + traceback.format_exc())
        return 2


if __name__ == "__main__":
    sys.exit(main())
