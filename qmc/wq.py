"""Shared reference model + oracles for weight quantization (C02, C03, C14, C16).

The reference grouping is pure index arithmetic (it never calls the library's group()/ungroup()).
"""
import torch

from . import num

# ---------------------------------------------------------------------------------------
# reference grouping
# ---------------------------------------------------------------------------------------


def group_ids(shape, axis, group_size):
    """For a tensor of `shape` quantized along `axis` (0 or -1) with `group_size` (None = whole row):
    returns (gid, pos, ngroups, gsize): gid[idx] = index of the scale group of element idx,
    pos[idx] = rank of the element inside its group (row-major order of the non-axis dims).
    Rank-1 tensors and tensors whose kept axis has size 1 form one row (per-tensor)."""
    shape = tuple(shape)
    numel = 1
    for d in shape:
        numel *= d
    idx = torch.arange(numel, dtype=torch.int64).reshape(shape)
    if len(shape) == 1:
        # one row holding every element
        rows, n = 1, numel
        row = torch.zeros_like(idx)
        within = idx
    elif axis == 0:
        rows = shape[0]
        n = numel // rows
        row = idx // n
        within = idx % n
    else:
        rows = shape[-1]
        n = numel // rows
        row = idx % rows
        within = idx // rows
    gs = n if group_size is None else group_size
    assert n % gs == 0
    per_row = n // gs
    gid = row * per_row + within // gs
    pos = within % gs
    return gid, pos, rows * per_row, gs


def fill(shape, axis, group_size, table, dt):
    """Tensor of `shape` whose scale-group k holds table[k] (float64, (ngroups, gsize))."""
    gid, pos, ng, gs = group_ids(shape, axis, group_size)
    assert table.shape == (ng, gs), (table.shape, ng, gs)
    return table[gid, pos].to(dt)


def group_minmax(x64, gid, ng):
    lo = torch.zeros(ng, dtype=torch.float64)
    hi = torch.zeros(ng, dtype=torch.float64)
    lo = lo.scatter_reduce(0, gid.flatten(), x64.flatten(), "amin", include_self=True)
    hi = hi.scatter_reduce(0, gid.flatten(), x64.flatten(), "amax", include_self=True)
    return lo, hi  # both include zero by construction


def group_absmax(x64, gid, ng):
    a = torch.zeros(ng, dtype=torch.float64)
    return a.scatter_reduce(0, gid.flatten(), x64.abs().flatten(), "amax", include_self=True)


def ref_ungroup_codes(codes, shape, axis):
    """Bring the (grouped) unpacked codes of a QBitsTensor back to the source layout (2 lines of index algebra)."""
    shape = tuple(shape)
    if tuple(codes.shape) == shape:
        return codes
    if axis == 0 or len(shape) == 1:
        return codes.reshape(shape)
    gs = codes.shape[0]
    dl = shape[-1]
    G = codes.numel() // dl // gs
    return codes.reshape(gs, dl, G).permute(2, 0, 1).reshape(shape)


# ---------------------------------------------------------------------------------------
# degenerate row / group classes
# ---------------------------------------------------------------------------------------
CLASSES = ["zeros", "const_pos", "const_neg", "one_sided_pos", "one_sided_neg", "offset2", "offset9", "offset200",
           "straddle", "single", "alternating", "tiny", "mixed_mag", "big"]
EXTREME = ["subnormal", "near_max_pos", "near_max_mixed"]


def gen_class(name, g, dtname, k=0):
    """g float64 values of the given class; k varies the phase so that different groups differ."""
    r = (torch.arange(g, dtype=torch.float64) + (k % 3)) / max(1, g - 1 + 2)  # ramp in [0,1)
    sgn = 1.0 if k % 2 == 0 else -1.0
    mag = [1.0, 0.25, 8.0, 0.01][k % 4]
    if name == "zeros":
        v = torch.zeros(g, dtype=torch.float64)
    elif name == "const_pos":
        v = torch.full((g,), 1.5 * mag, dtype=torch.float64)
    elif name == "const_neg":
        v = torch.full((g,), -0.75 * mag, dtype=torch.float64)
    elif name == "one_sided_pos":
        v = (1.0 + r) * mag
    elif name == "one_sided_neg":
        v = -(0.5 + 2 * r) * mag
    elif name.startswith("offset"):
        c = float(name[6:])
        v = sgn * (c + r) * mag  # spread 1, offset c
    elif name == "straddle":
        v = (2 * r - 0.9) * mag
    elif name == "single":
        v = torch.zeros(g, dtype=torch.float64)
        v[k % g] = sgn * mag
    elif name == "alternating":
        v = torch.where(torch.arange(g) % 2 == 0, 1.0, -1.0).to(torch.float64) * mag
    elif name == "tiny":
        v = (2 * r - 1) * 2.0**-10 * mag
    elif name == "mixed_mag":
        v = torch.tensor([[-1000.0, 2.0**-10, 1.0, 3.0][i % 4] for i in range(g)], dtype=torch.float64) * sgn
    elif name == "big":
        v = (2 * r - 1) * 1000.0 * mag
    elif name == "subnormal":
        q = num.QSUB[dtname]
        v = (torch.arange(g, dtype=torch.float64) - (g // 2) + (k % 2)) * q
    elif name == "near_max_pos":
        v = (0.5 + r / 2) * num.FMAX[dtname]
        v[k % g] = num.FMAX[dtname]
    elif name == "near_max_mixed":
        v = (2 * r - 1) * num.FMAX[dtname]
        v[k % g] = num.FMAX[dtname]
        v[(k + 1) % g] = -num.FMAX[dtname] if g > 1 else v[0]
    else:
        raise ValueError(name)
    # make values exactly representable in the dtype (so that the float64 oracle sees what the library sees)
    return v.to(num.DTYPES[dtname]).to(torch.float64)


# ---------------------------------------------------------------------------------------
# oracles
# ---------------------------------------------------------------------------------------


def affine_judge(x, q, bits, axis, group_size, dtname, idempotence=True, dq=None):
    """C02/C03/C06 oracle for quantize_weight(x, qint2|qint4, axis, group_size). Returns [(sub, count, msg, extra)]."""
    from optimum.quanto import QBitsTensor
    from optimum.quanto.tensor.qbits.packed import PackedTensor

    out = []
    L = (1 << bits) - 1
    if not isinstance(q, QBitsTensor):
        return [("meta", 1, f"result is {type(q).__name__}, expected QBitsTensor", {})]
    if tuple(q.shape) != tuple(x.shape) or q.dtype != x.dtype or q.qtype.bits != bits:
        return [("meta", 1, f"wrapper shape/dtype/qtype {tuple(q.shape)} {q.dtype} {q.qtype} for source {tuple(x.shape)} {x.dtype} bits {bits}", {})]
    if q.axis not in (0, -1) or (len(x.shape) > 1 and {0: 0, -1: -1}[axis] != q.axis and not (x.ndim >= 1 and axis == x.ndim - 1 and q.axis == -1)):
        out.append(("meta", 1, f"axis {q.axis} reported for requested {axis}", {}))
    if q._group_size != group_size:
        out.append(("meta", 1, f"group size {q._group_size} reported for requested {group_size}", {}))
    gid, pos, ng, gs = group_ids(x.shape, axis, group_size)
    sc, zp = q._scale, q._zeropoint
    if sc.dtype != x.dtype or zp.dtype != torch.int8:
        out.append(("meta", 1, f"scale dtype {sc.dtype} / zeropoint dtype {zp.dtype}", {}))
    if sc.numel() != ng or tuple(zp.shape) != tuple(sc.shape):
        out.append(("scale_count", 1, f"{sc.numel()} scales / zeropoint shape {tuple(zp.shape)} for {ng} groups", {}))
    if not isinstance(q._data, PackedTensor):
        out.append(("meta", 1, f"payload is {type(q._data).__name__}", {}))
    else:
        inner = q._data._data
        first = q._data.shape[0]
        if q._data.numel() != x.numel() or inner.dtype != torch.uint8 or inner.shape[0] != -(-first * bits // 8):
            out.append(("payload", 1, f"payload {tuple(q._data.shape)} inner {tuple(inner.shape)} {inner.dtype} for {x.numel()} elements", {}))
    try:
        dq = q.dequantize() if dq is None else dq  # a result obtained (and held) earlier by the caller is judged as it is now
    except Exception as e:  # noqa
        out.append(("dequantize_raised", 1, f"dequantize raised {type(e).__name__}: {e}", {}))
        return out
    if tuple(dq.shape) != tuple(x.shape) or dq.dtype != x.dtype:
        out.append(("meta", 1, f"dequantize gives {dq.dtype}{tuple(dq.shape)}", {}))
        return out
    x64 = x.to(torch.float64)
    d64 = dq.to(torch.float64)
    nonfinite = ~torch.isfinite(d64)
    if bool(nonfinite.any()):
        out.append(("nonfinite", int(nonfinite.sum()), f"{int(nonfinite.sum())} dequantized element(s) are NaN/Inf", {}))
    lo, hi = group_minmax(x64, gid, ng)
    step = ((hi - lo) / L)[gid]
    u = num.UNIT[dtname]
    tol = step / 2 + u * ((2 * L + 2) * step + 2 * x64.abs()) + 32 * num.QSUB[dtname]
    err = (d64 - x64).abs()
    bad = (err > tol) & ~nonfinite
    if bool(bad.any()):
        i = tuple(bad.nonzero()[0].tolist())
        onesided = bool(((lo[gid] == 0) | (hi[gid] == 0))[i])
        const = bool((x64 == x64[i])[gid == gid[i]].all())
        out.append(("half_step", int(bad.sum()),
                    f"{int(bad.sum())} element(s) off by more than half a step: x={float(x64[i])!r} dq={float(d64[i])!r} step={float(step[i])!r} err={float(err[i])!r}",
                    {"group_one_sided": onesided, "group_constant": const}))
    if idempotence and dtname in ("float32", "float16") and not bool(nonfinite.any()):
        from optimum.quanto.tensor.quantizers import AffineQuantizer

        try:
            q2 = AffineQuantizer.apply(dq, q.qtype, axis, group_size, sc, zp)
            same = torch.equal(q2._data._data, q._data._data)
        except Exception as e:  # noqa
            same = False
            out.append(("idempotence", 1, f"requantizing the dequantized tensor raised {type(e).__name__}: {e}", {}))
        else:
            if not same:
                n = int((q2._data.unpack() != q._data.unpack()).sum())
                zs = bool((sc == 0).any())
                out.append(("idempotence", n, f"requantizing dq with the same scale/zeropoint changes {n} code(s)", {"zero_scale": zs}))
    return out


def scale_judge_affine(x, q, bits, axis, group_size, dtname):
    """C03 (1),(2) for affine tensors: saturation overshoot <= half a step; step no larger than (hi-lo)/L up to rounding."""
    out = []
    L = (1 << bits) - 1
    gid, pos, ng, gs = group_ids(x.shape, axis, group_size)
    if q._scale.numel() != ng:
        return out
    x64 = x.to(torch.float64)
    lo, hi = group_minmax(x64, gid, ng)
    # order of scales: the library keeps them in its grouped layout; recover per-group scale by dequantizing unit codes is
    # overkill -> use the reference layout: axis 0: (rows*per_row, 1) row-major == gid order; axis -1: (1, cols*per_row) with
    # column-major (col, group) order == index col*per_row+g ... both equal gid order by construction of group_ids.
    s64 = q._scale.to(torch.float64).flatten()
    z64 = q._zeropoint.to(torch.float64).flatten()
    u = num.UNIT[dtname]
    ideal = (hi - lo) / L
    too_big = s64 > ideal * (1 + 4 * u) + 2 * num.QSUB[dtname]
    if bool(too_big.any()):
        i = int(too_big.nonzero()[0])
        out.append(("scale_too_large", int(too_big.sum()), f"scale {float(s64[i])!r} > (hi-lo)/{L} = {float(ideal[i])!r} for group {i}", {"zero_range": bool(ideal[i] == 0)}))
    # non-saturation: representable range [s*(0-zp), s*(L-zp)] must cover [lo,hi] up to half a step (+rounding)
    rlo = s64 * (0 - z64)
    rhi = s64 * (L - z64)
    slack = s64 / 2 * (1 + 8 * u) + u * ((2 * L + 2) * ideal + 2 * torch.maximum(hi.abs(), lo.abs())) + 32 * num.QSUB[dtname]
    glo = torch.full((ng,), float("inf"), dtype=torch.float64).scatter_reduce(0, gid.flatten(), x64.flatten(), "amin")
    ghi = torch.full((ng,), float("-inf"), dtype=torch.float64).scatter_reduce(0, gid.flatten(), x64.flatten(), "amax")
    sat = ((glo < rlo - slack) | (ghi > rhi + slack)) & torch.isfinite(s64)
    if bool(sat.any()):
        i = int(sat.nonzero()[0])
        out.append(("saturating", int(sat.sum()), f"group {i}: values [{float(glo[i])!r},{float(ghi[i])!r}] outside representable [{float(rlo[i])!r},{float(rhi[i])!r}] (scale {float(s64[i])!r} zp {float(z64[i])})",
                    {"group_one_sided": bool(lo[i] == 0 or hi[i] == 0)}))
    return out
