"""Import optimum.quanto from the tree under test (QMC_REPO_ROOT, default /repo).

* asserts that the imported package really comes from that tree;
* installs an import hook that lets the two AWQ python modules run on CPU by removing
  exactly the `assert <x>.device.type == "cuda"` statements from the source read from
  the working tree (nothing else is touched);
* builds (g++, no ninja in this image) and injects the C++ unpack extension so that the
  library's own routing torch.ops.quanto.unpack -> quanto_ext::unpack -> ext.lib.unpack
  runs the compiled kernel.
"""
import ast
import hashlib
import importlib.abc
import importlib.machinery
import importlib.util
import os
import subprocess
import sys
import sysconfig

REPO = os.path.realpath(os.environ.get("QMC_REPO_ROOT", "/repo"))
VERIF = os.path.realpath(os.path.join(os.path.dirname(__file__), ".."))
CACHE = os.path.join(VERIF, ".cache")

_AWQ_MODULES = {
    "optimum.quanto.tensor.qbits.awq.packed": "optimum/quanto/tensor/qbits/awq/packed.py",
    "optimum.quanto.tensor.qbits.awq.qbits": "optimum/quanto/tensor/qbits/awq/qbits.py",
}
AWQ_STRIPPED = {}


def _is_cuda_assert(node):
    if not isinstance(node, ast.Assert):
        return False
    for sub in ast.walk(node.test):
        if isinstance(sub, ast.Compare) and len(sub.comparators) == 1:
            left, right = sub.left, sub.comparators[0]
            if (
                isinstance(left, ast.Attribute)
                and left.attr == "type"
                and isinstance(left.value, ast.Attribute)
                and left.value.attr == "device"
                and isinstance(right, ast.Constant)
                and right.value == "cuda"
                and isinstance(sub.ops[0], ast.Eq)
            ):
                return True
    return False


class _StripCudaAsserts(ast.NodeTransformer):
    def __init__(self):
        self.count = 0

    def visit_Assert(self, node):
        if _is_cuda_assert(node):
            self.count += 1
            return ast.copy_location(ast.Pass(), node)
        return node


class _AWQLoader(importlib.machinery.SourceFileLoader):
    def source_to_code(self, data, path, *, _optimize=-1):
        tree = ast.parse(data, filename=path)
        tr = _StripCudaAsserts()
        tree = tr.visit(tree)
        ast.fix_missing_locations(tree)
        AWQ_STRIPPED[self.name] = tr.count
        return compile(tree, path, "exec", dont_inherit=True, optimize=_optimize)

    # never use / write byte-code caches for the rewritten module
    def get_code(self, fullname):
        path = self.get_filename(fullname)
        return self.source_to_code(self.get_data(path), path)


class _AWQFinder(importlib.abc.MetaPathFinder):
    def find_spec(self, fullname, path, target=None):
        rel = _AWQ_MODULES.get(fullname)
        if rel is None:
            return None
        filename = os.path.join(REPO, rel)
        if not os.path.exists(filename):
            return None
        return importlib.util.spec_from_file_location(fullname, filename, loader=_AWQLoader(fullname, filename))


_setup_done = False


LIB = None


def setup(threads=1, inject_ext=True):
    """Import torch + optimum.quanto from REPO. Returns the optimum.quanto module."""
    global _setup_done
    if not _setup_done:
        sys.dont_write_bytecode = True
        if REPO not in sys.path[:1]:
            sys.path.insert(0, REPO)
        sys.meta_path.insert(0, _AWQFinder())
        _setup_done = True
    import torch

    torch.set_num_threads(threads)
    import warnings

    warnings.filterwarnings("ignore", message=".*sparse_csr.*")
    warnings.filterwarnings("ignore", category=UserWarning, module=r"torch\..*")
    warnings.filterwarnings("ignore", message=".*int_mm_out_cpu failed.*")
    # quanto_ext has no kernel for the meta device: the library warns and falls back (expected, noisy)
    warnings.filterwarnings("ignore", message=".*No optimized kernel found for quanto::unpack.*")
    import optimum.quanto as oq

    got = os.path.realpath(oq.__file__)
    if not got.startswith(REPO + os.sep):
        raise RuntimeError(f"optimum.quanto imported from {got}, expected under {REPO}")
    if inject_ext and LIB is None:
        # every check runs the library with its compiled unpack kernel (as a user with ninja would);
        # without it each unpack call would try to build the extension, warn and fall back to python
        inject_cpp_ext()
    return oq


# ---------------------------------------------------------------------------------------
# C++ extension
# ---------------------------------------------------------------------------------------
_CPP_DIR = "optimum/quanto/library/ext/cpp"
_CPP_SOURCES = ["unpack.cpp", "pybind_module.cpp"]


def _cpp_hash():
    import torch

    h = hashlib.sha256()
    h.update(torch.__version__.encode())
    d = os.path.join(REPO, _CPP_DIR)
    for name in sorted(os.listdir(d)):
        if name.endswith((".cpp", ".h")):
            h.update(name.encode())
            with open(os.path.join(d, name), "rb") as f:
                h.update(f.read())
    return h.hexdigest()[:16]


def build_cpp_ext(verbose=False):
    """Build the C++ extension from the current tree (cached by source hash). Returns .so path."""
    import torch
    from torch.utils import cpp_extension

    tag = _cpp_hash()
    name = f"quanto_cpp_{tag}"
    outdir = os.path.join(CACHE, "ext", tag)
    so = os.path.join(outdir, name + ".so")
    if os.path.exists(so):
        return so, name
    os.makedirs(outdir, exist_ok=True)
    import fcntl

    lockf = open(os.path.join(outdir, ".lock"), "w")
    fcntl.flock(lockf, fcntl.LOCK_EX)  # one builder at a time; the others then find the .so
    try:
        if os.path.exists(so):
            return so, name
        return _build_locked(torch, cpp_extension, outdir, so, name)
    finally:
        fcntl.flock(lockf, fcntl.LOCK_UN)
        lockf.close()


def _build_locked(torch, cpp_extension, outdir, so, name):
    incs = [sysconfig.get_paths()["include"]] + list(cpp_extension.include_paths())
    libdir = os.path.join(os.path.dirname(torch.__file__), "lib")
    common = ["g++", "-O1", "-fPIC", "-std=c++20", f"-DTORCH_EXTENSION_NAME={name}", "-DTORCH_API_INCLUDE_EXTENSION_H"]
    for i in incs:
        common += ["-I", i]
    procs = []
    objs = []
    for src in _CPP_SOURCES:
        obj = os.path.join(outdir, src + ".o")
        objs.append(obj)
        cmd = common + ["-c", os.path.join(REPO, _CPP_DIR, src), "-o", obj]
        procs.append((cmd, subprocess.Popen(cmd, stdout=subprocess.PIPE, stderr=subprocess.STDOUT)))
    for cmd, p in procs:
        out, _ = p.communicate()
        if p.returncode != 0:
            raise RuntimeError("C++ extension build failed:\n" + " ".join(cmd) + "\n" + out.decode()[-4000:])
    tmp = so + f".tmp{os.getpid()}"
    link = ["g++", "-shared", "-o", tmp] + objs + [
        "-L", libdir, "-lc10", "-ltorch_cpu", "-ltorch", "-ltorch_python", f"-Wl,-rpath,{libdir}",
    ]
    r = subprocess.run(link, stdout=subprocess.PIPE, stderr=subprocess.STDOUT)
    if r.returncode != 0:
        raise RuntimeError("C++ extension link failed:\n" + r.stdout.decode()[-4000:])
    os.replace(tmp, so)
    for o in objs:
        try:
            os.unlink(o)
        except OSError:
            pass
    return so, name


class CountingLib:
    """Wraps the compiled module and counts calls, to prove the C++ symbol really ran."""

    def __init__(self, mod):
        self._mod = mod
        self.calls = 0

    def unpack(self, t, bits):
        self.calls += 1
        return self._mod.unpack(t, bits)


def inject_cpp_ext():
    """Build + load the compiled kernel and make the library use it. Returns the CountingLib."""
    global LIB
    if LIB is not None:
        return LIB
    setup(inject_ext=False)
    so, name = build_cpp_ext()
    spec = importlib.util.spec_from_file_location(name, so)
    mod = importlib.util.module_from_spec(spec)
    spec.loader.exec_module(mod)
    from optimum.quanto.library.ext import cpp as cpp_pkg

    lib = CountingLib(mod)
    cpp_pkg.ext._lib = lib
    LIB = lib
    return lib
