"""Evidence files, violation records, replay artefacts, known findings."""
import hashlib
import json
import os
import re
import subprocess
import sys
import time

VERIF = os.path.realpath(os.path.join(os.path.dirname(__file__), ".."))
KNOWN_FILE = os.path.join(VERIF, "KNOWN_FINDINGS.txt")
# runs against another tree than /repo (seeded changes in scratch worktrees) must not overwrite the committed evidence
_ALT = os.path.realpath(os.environ.get("QMC_REPO_ROOT", "/repo")) != "/repo"
EVIDENCE_DIR = os.path.join(VERIF, ".cache", "evidence_other_tree") if _ALT else os.path.join(VERIF, "evidence")
REPLAY_DIR = os.path.join(VERIF, ".cache", "replays_other_tree") if _ALT else os.path.join(VERIF, "replays")
SCHEMA = "/root/.vp/EVIDENCE.schema.json"


def jsonable(x):
    import torch

    if isinstance(x, dict):
        return {str(k): jsonable(v) for k, v in x.items()}
    if isinstance(x, (list, tuple, set, frozenset)):
        return [jsonable(v) for v in x]
    if isinstance(x, (torch.dtype, torch.device, torch.Size)):
        return str(x)
    if isinstance(x, torch.Tensor):
        return x.tolist() if x.numel() <= 64 else f"tensor{tuple(x.shape)}"
    if isinstance(x, float):
        if x != x or x in (float("inf"), float("-inf")):
            return repr(x)
        return x
    if isinstance(x, (int, str, bool)) or x is None:
        return x
    return repr(x)


def violation(pid, case, fields, msg, detail=None):
    """A violation record.

    case   : JSON-able description sufficient for <check>.replay(case) to re-execute it
    fields : configuration fields the known-finding predicates are matched against
    msg    : human readable 'what failed'
    """
    return {"property": pid, "case": jsonable(case), "fields": jsonable(fields), "msg": msg, "detail": jsonable(detail or {})}


# ---------------------------------------------------------------------------------------
# known findings
# ---------------------------------------------------------------------------------------
_FINDING_RE = re.compile(r"^finding:\s+property=(\S+)\s+id=(\S+)\s+match=(\{.*?\})\s+::\s+(.*)$")


def load_known():
    out = []
    if not os.path.exists(KNOWN_FILE):
        return out
    for line in open(KNOWN_FILE):
        line = line.rstrip("\n")
        if not line.startswith("finding:"):
            continue
        m = _FINDING_RE.match(line)
        if not m:
            raise RuntimeError(f"malformed line in KNOWN_FINDINGS.txt: {line}")
        out.append({"property": m.group(1), "id": m.group(2), "match": json.loads(m.group(3)), "what": m.group(4)})
    return out


def _match(pred, fields):
    for k, want in pred.items():
        if k not in fields:
            return False
        got = fields[k]
        if isinstance(want, list):
            if got not in want:
                return False
        elif got != want:
            return False
    return True


def split_known(pid, violations):
    known = [k for k in load_known() if k["property"] == pid]
    hit = {}
    new = []
    for v in violations:
        for k in known:
            if _match(k["match"], v["fields"]):
                hit.setdefault(k["id"], [k, 0])[1] += 1
                break
        else:
            new.append(v)
    return new, hit


# ---------------------------------------------------------------------------------------
def write_replay(pid, v):
    os.makedirs(REPLAY_DIR, exist_ok=True)
    blob = json.dumps({"property": pid, "case": v["case"], "fields": v["fields"]}, sort_keys=True)
    h = hashlib.sha256(blob.encode()).hexdigest()[:12]
    path = os.path.join(REPLAY_DIR, f"{pid}-{h}.json")
    with open(path, "w") as f:
        json.dump(v, f, indent=1, sort_keys=True)
    return path


def class_key(v):
    """Violations are grouped by (msg head, fields) so the output stays readable."""
    return json.dumps([v["msg"].split(":")[0], v["fields"]], sort_keys=True)


def validate_evidence(path):
    code = (
        "import json,sys,jsonschema;"
        "s=json.load(open(sys.argv[1]));d=json.load(open(sys.argv[2]));"
        "jsonschema.Draft202012Validator(s).validate(d)"
    )
    if not os.path.exists(SCHEMA):
        return True, "schema not present"
    try:
        r = subprocess.run(["python3-vt", "-c", code, SCHEMA, path], capture_output=True, text=True, timeout=120)
    except FileNotFoundError:
        return True, "python3-vt not present"
    return r.returncode == 0, r.stderr[-2000:]


def write_evidence(pid, tier, seed, level, coverage, assumptions, wall_s, nviol, extra=None):
    os.makedirs(EVIDENCE_DIR, exist_ok=True)
    ev = {
        "property_id": pid,
        "tier": tier,
        "seed": int(seed),
        "level": level,
        "coverage": jsonable(coverage),
        "assumptions": list(assumptions),
        "wall_s": round(float(wall_s), 3),
        "violations": int(nviol),
    }
    if extra:
        ev.update(jsonable(extra))
    path = os.path.join(EVIDENCE_DIR, f"{pid}.json")
    tmp = path + ".tmp"
    with open(tmp, "w") as f:
        json.dump(ev, f, indent=1, sort_keys=True)
    os.replace(tmp, path)
    return path


def log(*a):
    print(*a, file=sys.stderr, flush=True)


class Timer:
    def __init__(self):
        self.t0 = time.time()

    def s(self):
        return time.time() - self.t0
