"""setup: pre-build the C++ kernel from the current tree and self-test the reference models."""
import sys

from . import loader


def main():
    loader.setup()
    from .ref import float8

    float8.selftest()
    so, name = loader.build_cpp_ext()
    print("C++ extension:", so)
    lib = loader.inject_cpp_ext()
    import torch

    x = torch.arange(256, dtype=torch.int32).to(torch.uint8)
    assert torch.equal(torch.ops.quanto_ext.unpack(x, 4), torch.ops.quanto_py.unpack(x, 4))
    assert lib.calls == 1
    print("setup ok")
    return 0


if __name__ == "__main__":
    sys.exit(main())
