"""Numeric helpers shared by the checks (float64 / integer reference arithmetic)."""
import torch

from .ref import float8

DTYPES = {"float32": torch.float32, "float16": torch.float16, "bfloat16": torch.bfloat16}
# unit round-off (half the spacing of 1.0's binade relative to 1.0 is u/1; we use u = 2^-p, p = precision bits)
UNIT = {"float32": 2.0**-24, "float16": 2.0**-11, "bfloat16": 2.0**-8}
# smallest positive subnormal
QSUB = {"float32": 2.0**-149, "float16": 2.0**-24, "bfloat16": 2.0**-133}
FMAX = {"float32": float(torch.finfo(torch.float32).max), "float16": 65504.0, "bfloat16": float(torch.finfo(torch.bfloat16).max)}
FMIN_NORMAL = {"float32": 2.0**-126, "float16": 2.0**-14, "bfloat16": 2.0**-126}

Q8 = ["qint8", "qfloat8_e4m3fn", "qfloat8_e5m2"]


def qt(name):
    from optimum.quanto import qtypes

    return qtypes[name]


def all_finite_half(dtname):
    """Every finite value of float16 / bfloat16 (both signs, zeros, subnormals), ascending bit pattern."""
    dt = DTYPES[dtname]
    bits = torch.arange(0, 65536, dtype=torch.int32).to(torch.int16)
    v = bits.view(dt)
    fin = torch.isfinite(v)
    return v[fin].clone()


def all_positive_finite_half(dtname):
    v = all_finite_half(dtname)
    return v[v > 0].clone()


_TABLE_CACHE = {}


def table_tensor(qname):
    t = _TABLE_CACHE.get(qname)
    if t is None:
        t = _TABLE_CACHE[qname] = torch.tensor(float8.TABLES[qname], dtype=torch.float64)
    return t


_GRID_CACHE = {}


def grid_tensor(qname):
    g = _GRID_CACHE.get(qname)
    if g is None:
        g = _GRID_CACHE[qname] = torch.tensor(float8.grid(qname), dtype=torch.float64)
    return g


def decode_codes(data, qname):
    """Payload tensor (int8 or float8 storage) -> float64 values via the hand-decoded tables. NaN stays NaN."""
    if qname == "qint8":
        assert data.dtype == torch.int8, data.dtype
        return data.to(torch.float64)
    assert data.dtype in (torch.float8_e4m3fn, torch.float8_e5m2), data.dtype
    idx = data.contiguous().view(torch.uint8).to(torch.int64)
    return table_tensor(qname)[idx]


def nearest_grid_error(x64, s64, qname):
    """min_v |s*v - x| over the finite grid of the 8-bit type, exactly (all products exact in float64).

    Returns (best_error, is_tie).
    """
    g = grid_tensor(qname)
    ratio = x64 / s64
    ratio = torch.nan_to_num(ratio, nan=0.0, posinf=float(g[-1]) * 2, neginf=float(g[0]) * 2)
    idx = torch.searchsorted(g, ratio.contiguous())
    n = g.numel()
    errs = []
    for off in (-2, -1, 0, 1):
        c = idx + off
        valid = (c >= 0) & (c < n)
        e = (s64 * g[c.clamp(0, n - 1)] - x64).abs()
        errs.append(torch.where(valid, e, torch.full_like(e, float("inf"))))
    best = errs[0]
    for e in errs[1:]:
        best = torch.minimum(best, e)
    cnt = sum((e == best).to(torch.int8) for e in errs)
    tie = (cnt >= 2) & (best > 0)
    return best, tie


def bits_of(t):
    """Integer view of a float tensor for bit-exact comparison."""
    if t.dtype == torch.float32:
        return t.contiguous().view(torch.int32)
    if t.dtype in (torch.float16, torch.bfloat16):
        return t.contiguous().view(torch.int16)
    if t.dtype == torch.float64:
        return t.contiguous().view(torch.int64)
    if t.dtype in (torch.float8_e4m3fn, torch.float8_e5m2):
        return t.contiguous().view(torch.uint8)
    return t.contiguous()


def same_bits(a, b):
    return a.dtype == b.dtype and a.shape == b.shape and bool(torch.equal(bits_of(a), bits_of(b)))


def hexbits(t):
    """Hex strings of the bit patterns (for replay files)."""
    b = bits_of(t).flatten().tolist()
    w = {torch.float32: 8, torch.float16: 4, torch.bfloat16: 4}.get(t.dtype, 2)
    return [format(v & ((1 << (4 * w)) - 1), f"0{w}x") for v in b]


def poison(*nbytes):
    """Fill and release buffers of the given sizes so that a following torch.empty() of such a size is likely to receive recognisable
    garbage instead of zero pages or - worse - the still intact content of a just released reference result (block-wise code that
    forgets its tail would otherwise go unnoticed by a differential oracle)."""
    for n in nbytes:
        for _ in range(2):
            t = torch.full((int(n),), 0xA5, dtype=torch.uint8)
            del t
