"""C12 - calibration scales are the configured-momentum average of batch absmax ranges (E2: all batch histories)."""
import itertools

import torch
import torch.nn as nn
import torch.nn.functional as F

from .. import models, num
from ..pool import journal
from ..report import violation

PID = "C12"
LEVEL = "model_checking"
KINDS = ["unit", "x10", "x0.1", "qmax", "zero", "x1e-4"]
MOMENTA = [0.0, 0.5, 0.9, 0.99]
MODELS = ["linear", "conv", "layernorm", "lin_lin", "lin_ln_lin", "lin_relu_lin", "lin_idiv_lin"]
RULE = (
    "every batch history of length 1..3 (quick) / 1..4 (thorough) over 6 batch kinds {unit noise, x10, x0.1, x1e-4, absmax exactly qmax (scale exactly 1.0), all-zero} x momentum {0,0.5,0.9,0.99} x activations "
    "{qint8,e4m3,e5m2} x 6 model chains x streamline on/off x every split of the history into one or two successive Calibration contexts; after every history the input and output scale of every "
    "module with quantized activations is compared with a 3-line EMA reference (initialised by the first batch) of absmax/qmax over the module's captured float input (adopted scale for an already "
    "quantized input) and over its raw output recomputed with the float functional on the dequantized weight; after single-batch histories no activation saturates. States = distinct histories; "
    "non-trivial = histories of length >= 2 (momentum observable)."
)
ASSUMPTIONS = [
    "the averaging law is checked relative to the tensors that actually reach each module (captured by module-level pre-hooks); modules whose activations were switched off by streamlining are exempt from then on",
    "tolerance 32u relative + 4 min-subnormal on each scale (EMA evaluated in float64 vs in the buffer dtype)",
    "the average continues across successive contexts",
]


class _IDiv(nn.Module):
    """Linear -> in-place scalar division of the activation -> Linear (e.g. an attention scaling)"""

    def __init__(self):
        super().__init__()
        self.a = nn.Linear(8, 6)
        self.b = nn.Linear(6, 4)

    def forward(self, x):
        h = self.a(x)
        h /= 4.0
        return self.b(h)


class _Heads(nn.Module):
    """n small heads applied to the same float input (more scales than any slot table of a few hundred entries)"""

    def __init__(self, n=160):
        super().__init__()
        self.heads = nn.ModuleList([nn.Linear(8, 2) for _ in range(n)])

    def forward(self, x):
        return [h(x) for h in self.heads]


class _Twice(nn.Module):
    """one Linear applied twice in a forward (weight tying / module re-use): the second call is fed the module's own quantized output"""

    def __init__(self):
        super().__init__()
        self.a = nn.Linear(8, 8)

    def forward(self, x):
        return self.a(self.a(x))


# models quantized in two steps with different 8-bit activation qtypes: the first module's quantized output feeds a module of another qtype
MIXED = {"mixed_lin_lin": lambda: [nn.Linear(8, 6), nn.Linear(6, 4)], "mixed_lin_ln": lambda: [nn.Linear(8, 6), nn.LayerNorm(6)]}
EXTRA_MODELS = ["lin_twice", "mixed_lin_lin", "mixed_lin_ln"]


def _quantize_model(model, name, aname):
    from optimum.quanto import quantize

    if name in MIXED:
        other = "qfloat8_e4m3fn" if aname == "qint8" else "qint8"
        quantize(model, modules=[model[0]], weights=num.qt("qint8"), activations=num.qt(other))
        quantize(model, modules=[model[1]], weights=num.qt("qint8"), activations=num.qt(aname))
        assert model[0].activation_qtype.name == other and model[1].activation_qtype.name == aname
    else:
        quantize(model, weights=num.qt("qint8"), activations=num.qt(aname))


def _build(name, dt):
    torch.manual_seed(0)
    if name == "lin_twice":
        m = _Twice()
        for k, p in enumerate(m.parameters()):
            models._fill(p, k)
        return m.to(dt).eval()
    if name in MIXED:
        m = nn.Sequential(*MIXED[name]())
        for k, p in enumerate(m.parameters()):
            models._fill(p, k)
        return m.to(dt).eval()
    if name == "heads160":
        m = _Heads()
        for k, p in enumerate(m.parameters()):
            models._fill(p, k)
        return m.to(dt).eval()
    if name == "lin_idiv_lin":
        m = _IDiv()
        for k, p in enumerate(m.parameters()):
            models._fill(p, k)
        return m.to(dt).eval()
    seq = {
        "big_linear": lambda: [nn.Linear(768, 6)],
        "big_lin_lin": lambda: [nn.Linear(512, 512), nn.Linear(512, 8)],
        "big_conv": lambda: [nn.Conv2d(8, 16, 3, padding=1)],
        "linear": lambda: [nn.Linear(8, 6)],
        "conv": lambda: [nn.Conv2d(2, 3, 2)],
        "layernorm": lambda: [nn.LayerNorm(8)],
        "lin_lin": lambda: [nn.Linear(8, 6), nn.Linear(6, 4)],
        "lin_ln_lin": lambda: [nn.Linear(8, 6), nn.LayerNorm(6), nn.Linear(6, 4)],
        "lin_relu_lin": lambda: [nn.Linear(8, 6), nn.ReLU(), nn.Linear(6, 4)],
    }[name]()
    m = nn.Sequential(*seq)
    for k, p in enumerate(m.parameters()):
        models._fill(p, k)
    return m.to(dt).eval()


def _batch(kind, name, dt, aname, idx):
    shape = BIG_SHAPES.get(name) or ((2, 2, 3, 3) if name == "conv" else (3, 8))
    n = 1
    for d in shape:
        n *= d
    i = torch.arange(n, dtype=torch.float64).reshape(shape)
    base = torch.cos(i * 0.37 + idx * 1.3) * (0.6 + (i % 4) * 0.1)
    if name in BIG_SHAPES:
        base = base * (0.5 + i / n)  # the loudest samples come last (a block-wise reduction that drops its tail under-estimates)
    if kind == "unit":
        v = base
    elif kind == "x10":
        v = base * 10
    elif kind == "x0.1":
        v = base * 0.1
    elif kind == "x1e-4":
        v = base * 1e-4
    elif kind == "zero":
        v = torch.zeros(shape, dtype=torch.float64)
    else:  # absmax exactly qmax -> scale exactly 1.0
        qmax = num.float8.QMAX[aname]
        v = base / base.abs().max() * (qmax * 0.5)
        v.view(-1)[0] = qmax
    return v.to(dt)


# size ladder: batches of 2^16 .. 2^20+ activations with non power-of-two row counts
BIG_SHAPES = {"big_linear": (301, 768), "big_lin_lin": (2050, 512), "big_conv": (3, 8, 67, 67)}


def _long_seqs(tier):
    """Depth ladder: fixed long batch sequences (no 'qmax' batches: an average that hits exactly 1.0 is the known finding F-C12-1)."""
    kinds = [k for k in KINDS if k != "qmax"]
    out = []
    for p, (L, split) in enumerate([(24, None), (40, 13), (64, None)] if tier == "quick" else [(24, None), (40, 13), (40, 27), (120, None), (120, 61), (300, 150)]):
        x = 4242 + 977 * p
        seq = []
        for _ in range(L):
            x = (x * 1103515245 + 12345) % (1 << 31)
            seq.append(kinds[(x >> 8) % len(kinds)])
        out.append([seq, split])
    return out


def plan(tier, seed):
    tasks = []
    for name in ("linear", "lin_ln_lin", "lin_relu_lin", "lin_idiv_lin", "conv"):
        for aname in num.Q8:
            for mom in (0.5, 0.9) if tier == "quick" else MOMENTA:
                tasks.append({"model": name, "a": aname, "momentum": mom, "streamline": False, "dt": "float32", "tier": tier, "seqs": _long_seqs(tier)})
    for aname in num.Q8:
        for mom in (0.5, 0.9):
            tasks.append({"model": "heads160", "a": aname, "momentum": mom, "streamline": False, "dt": "float32", "tier": tier, "kinds": ["unit", "x10", "x0.1"], "L": 3, "stale_check": True})
    for name in EXTRA_MODELS:
        for aname in num.Q8:
            for mom in (0.5, 0.9) if tier == "quick" else MOMENTA:
                tasks.append({"model": name, "a": aname, "momentum": mom, "streamline": False, "dt": "float32", "tier": tier})
    for name in BIG_SHAPES:
        for aname in num.Q8:
            for mom in ((0.5,) if tier == "quick" else (0.0, 0.5, 0.9)):
                for dt in (("float32",) if tier == "quick" else ("float32", "float16")):
                    tasks.append({"model": name, "a": aname, "momentum": mom, "streamline": False, "dt": dt, "tier": tier, "kinds": ["unit", "x10", "x0.1"], "L": 2})
    for name in MODELS:
        for aname in num.Q8:
            for mom in MOMENTA:
                for streamline in (False, True):
                    for dt in (("float32",) if tier == "quick" else ("float32", "float16")):
                        tasks.append({"model": name, "a": aname, "momentum": mom, "streamline": streamline, "dt": dt, "tier": tier})
    return tasks


def _ema(prev, new, m, first):
    if first:
        return new
    return m * prev + new * (1.0 - m)


def _run_history(task, seq, split, out, only=False):
    """Run the batches of `seq` through 1 or 2 successive Calibration contexts (split = index where the second starts, or None)."""
    from optimum.quanto import Calibration, QBytesTensor, QModuleMixin, quantize, quantize_activation

    name, aname, mom, dtname = task["model"], task["a"], task["momentum"], task["dt"]
    dt = num.DTYPES[dtname]
    u = num.UNIT[dtname]
    model = _build(name, dt)
    _quantize_model(model, name, aname)
    qmods = [(n, m) for n, m in model.named_modules() if isinstance(m, QModuleMixin)]
    mq = {n: (num.float8.QMAX[m.activation_qtype.name], m.activation_qtype) for n, m in qmods}  # per module: modules may differ in qtype
    captured = {}

    # one record per *call* (a module may be applied several times in one forward); the module's input scale is read at call time:
    # Calibration's global pre-hook has already run when a module-level pre-hook fires
    def mk_hook(n):
        def hook(mod, args):
            x = args[0]
            sc_now = mod.input_scale.detach().clone()
            captured.setdefault(n, []).append((x.dequantize().detach().clone(), x._scale.detach().clone(), sc_now) if isinstance(x, QBytesTensor) else (x.detach().clone(), None, sc_now))
        return hook

    handles = [m.register_forward_pre_hook(mk_hook(n)) for n, m in qmods]
    ref = {n: {"in": None, "out": None, "exempt": False, "unit_hit": False} for n, _ in qmods}
    case = dict(task, seq=list(seq), split=split)
    fields = {"model": name, "activations": aname, "momentum": mom, "streamline": task["streamline"], "dtype": dtname, "contexts": 1 if split is None else 2, "length": len(seq)}
    journal(repr(case))
    groups = [list(range(len(seq)))] if split is None else [list(range(0, split)), list(range(split, len(seq)))]
    # two successive contexts either use a fresh Calibration object each or re-enter the same object
    reuse = split is not None and (len(seq) + split) % 2 == 1
    shared_ctx = Calibration(momentum=mom, streamline=task["streamline"]) if reuse else None
    fields["reused_context_object"] = reuse
    try:
        bi = 0
        for grp in groups:
            with torch.no_grad(), (shared_ctx if reuse else Calibration(momentum=mom, streamline=task["streamline"])):
                for b in grp:
                    x = _batch(seq[b], name, dt, aname, b)
                    captured.clear()
                    active_before = {n: m.activation_qtype is not None for n, m in qmods}
                    x_before = x.clone()
                    model(x)
                    if not num.same_bits(x, x_before):
                        out["violations"].append(violation(PID, case, dict(fields, sub="batch_modified"), f"batch_modified: the calibration batch #{b} ({seq[b]}, shape {tuple(x.shape)}) handed to the model was modified in place by the forward pass"))
                    # reference update for every module that was active during this batch
                    for n, m in qmods:
                        r = ref[n]
                        if r["exempt"] or not active_before[n] or n not in captured:
                            r["exempt"] = r["exempt"] or not active_before[n]
                            continue
                        qmax, mqt = mq[n]
                        r["calls_in_batch"] = len(captured[n])
                        for xin, xscale, sc_now in captured[n]:
                            first = r["out"] is None  # no update of this module yet (its first call of the first batch)
                            if xscale is not None:
                                r["in"] = float(xscale.to(torch.float64).max())  # adopts the scale of an already quantized input
                            else:
                                tgt = float(xin.to(torch.float64).abs().max()) / qmax
                                if r["in"] is not None and r["in"] == 1.0:
                                    r["unit_hit"] = True
                                r["in"] = _ema(r["in"], tgt, mom, r["in"] is None)
                            # raw output recomputed with the float functional on the dequantized weight
                            wdq = m.qweight.dequantize() if m.weight_qtype is not None else m.weight
                            if isinstance(m, nn.LayerNorm):
                                xu = xin
                                raw = F.layer_norm(xu, m.normalized_shape, m.weight, m.bias, m.eps)
                            else:
                                if xscale is None:
                                    # the raw output of this batch is defined relative to the input the module actually saw, i.e. quantized
                                    # with the module's own current input scale (judged separately against the averaging law): with the
                                    # coarse float8 grids a last-bit difference between the reference average and the buffer would
                                    # otherwise flip input codes and move the output range by a few percent
                                    xu = quantize_activation(xin, mqt, sc_now).dequantize()
                                else:
                                    xu = xin
                                raw = F.linear(xu, wdq, m.bias) if isinstance(m, nn.Linear) else F.conv2d(xu, wdq, m.bias, m.stride, m.padding, m.dilation, m.groups)
                            tgt = float(raw.to(torch.float64).abs().max()) / qmax
                            if not first and r["out"] == 1.0:
                                r["unit_hit"] = True
                            r["out"] = _ema(r["out"], tgt, mom, first)
                            # (an adopted scale belongs to the producer's qtype: the no-saturation clause is about scales averaged from float inputs)
                            r["last_in_absmax"] = float(xin.to(torch.float64).abs().max()) if xscale is None else None
                            r["last_raw_absmax"] = float(raw.to(torch.float64).abs().max())
                    bi += 1
            # leaving the context: modules disabled by streamlining become exempt
            for n, m in qmods:
                if m.activation_qtype is None:
                    ref[n]["exempt"] = True
    except Exception as e:  # noqa
        out["violations"].append(violation(PID, case, dict(fields, sub="raised"), f"raised: calibration of history {seq} split {split} raised {type(e).__name__}: {str(e)[:200]} ({task})"))
        for h in handles:
            h.remove()
        return
    for h in handles:
        h.remove()
    # the 'scale == 1 means uninitialised' sentinel restarts the average: everything downstream of such a restart differs too
    any_unit = any(r["unit_hit"] for r in ref.values())
    for n, m in qmods:
        r = ref[n]
        if r["exempt"] or m.activation_qtype is None or r["in"] is None:
            continue
        for which, got_t, want in (("input_scale", m.input_scale, r["in"]), ("output_scale", m.output_scale, r["out"])):
            got = float(got_t.to(torch.float64).reshape(-1)[0]) if got_t.numel() == 1 else None
            f = dict(fields, sub=which, scale=which, unit_scale_restart=any_unit, module=type(m).__name__)
            if got is None or got_t.ndim != 0:
                out["violations"].append(violation(PID, case, dict(f, sub="scale_shape"), f"scale_shape: {which} of module {n} has shape {tuple(got_t.shape)}"))
                continue
            if got_t.dtype != dt:
                out["violations"].append(violation(PID, case, dict(f, sub="scale_dtype"), f"scale_dtype: {which} of module {n} is {got_t.dtype} in a {dtname} model"))
            # rounding of the running average in the buffer dtype accumulates geometrically: at most u/(1-m) (or u per step)
            drift = 0 if len(seq) <= 4 else 2 * min(len(seq), 1.0 / max(1.0 - mom, 1e-3))
            tol = (32 + drift) * u * abs(want) + 4 * num.QSUB[dtname]
            import math

            if not math.isfinite(want):
                # the float model itself overflows on this history (e.g. float16 with a batch of amplitude 57344): the
                # averaging law then only requires the same non-finite value
                if got == want or (math.isnan(want) and math.isnan(got)) or not math.isfinite(got):
                    continue
            if not (abs(got - want) <= tol):
                out["violations"].append(violation(PID, case, f, f"{which}: module {n} ({type(m).__name__}) has {which}={got!r} after history {seq} (split {split}, momentum {mom}, {aname}); the momentum average of absmax/qmax is {want!r}"))
        # (a module applied twice in the forward has averaged two updates after one batch: the no-saturation clause is about one update)
        if len(seq) == 1 and r.get("calls_in_batch") == 1:
            qmax = mq[n][0]
            for which, amax, sc in (("input", r.get("last_in_absmax"), m.input_scale), ("output", r.get("last_raw_absmax"), m.output_scale)):
                s = float(sc.to(torch.float64))
                if amax is not None and amax > (s + num.QSUB[dtname]) * qmax * (1 + 8 * u):
                    out["violations"].append(violation(PID, case, dict(fields, sub="saturates_after_one_batch"), f"saturates_after_one_batch: module {n} {which} absmax {amax!r} > scale*qmax = {s * qmax!r} after calibrating on that single batch"))
    # after calibration the weights change (in place, version-bumping): the next forward must use the current weights
    if task.get("stale_check") and len(seq) == 1:
        try:
            from optimum.quanto import quantize_weight

            with torch.no_grad():
                for k, (n, m) in enumerate(qmods):
                    if k % 3 == 0:
                        m.weight.zero_()
                    else:
                        m.weight.mul_(-1.5)
            for n, m in qmods:
                fresh = quantize_weight(m.weight.detach(), m.weight_qtype, 0)
                if not (num.same_bits(m.qweight._data, fresh._data) and num.same_bits(m.qweight._scale, fresh._scale)):
                    out["violations"].append(violation(PID, case, dict(fields, sub="stale_qweight"), f"stale_qweight: after calibration the weights of module {n} were changed in place, but the module still uses the quantized weight of the old values"))
                    break
        except Exception as e:  # noqa
            out["violations"].append(violation(PID, case, dict(fields, sub="raised"), f"raised: checking the quantized weights after calibration raised {type(e).__name__}: {str(e)[:160]}"))
    # long-history tasks: the same Calibration object then serves a second model for many batches; the scales of the first model,
    # whose calibration is over, must stay what they were (state carried between models through the context object)
    if task.get("seqs") and split is None:
        try:
            ctx2 = Calibration(momentum=mom, streamline=False)
            ma = _build(name, dt)
            quantize(ma, weights=num.qt("qint8"), activations=num.qt(aname))
            with torch.no_grad(), ctx2:
                ma(_batch("unit", name, dt, aname, 0))
                ma(_batch("x10", name, dt, aname, 1))
            snap = {n: (m.input_scale.detach().clone(), m.output_scale.detach().clone()) for n, m in ma.named_modules() if isinstance(m, QModuleMixin)}
            mb = _build(name, dt)
            quantize(mb, weights=num.qt("qint8"), activations=num.qt(aname))
            with torch.no_grad(), ctx2:
                for k in range(task.get("second_model_batches", 140)):
                    mb(_batch(("unit", "x0.1", "x10")[k % 3], name, dt, aname, k))
            for n, m in ma.named_modules():
                if isinstance(m, QModuleMixin) and not (num.same_bits(m.input_scale.detach(), snap[n][0]) and num.same_bits(m.output_scale.detach(), snap[n][1])):
                    out["violations"].append(violation(PID, case, dict(fields, sub="foreign_scale_changed"), f"foreign_scale_changed: calibrating a second model for many batches with the same Calibration object changed the scales of module {n} of the first model, whose calibration was over"))
                    break
        except Exception as e:  # noqa
            out["violations"].append(violation(PID, case, dict(fields, sub="raised"), f"raised: calibrating a second model with the same Calibration object raised {type(e).__name__}: {str(e)[:160]}"))
    # a later context that only runs the last module on float inputs must leave every other module's scales alone
    if len(qmods) >= 2 and qmods[-1][1].activation_qtype is not None:
        others = {n: (m.input_scale.detach().clone(), m.output_scale.detach().clone()) for n, m in qmods[:-1]}
        last = qmods[-1][1]
        fin = last.in_features if hasattr(last, "in_features") else last.normalized_shape[-1]
        xb = (torch.cos(torch.arange(3 * fin, dtype=torch.float64) * 0.7).reshape(3, fin) * 5.0).to(dt)
        try:
            with torch.no_grad(), Calibration(momentum=mom, streamline=False):
                last(xb)
                last(xb * 0.5)
            for n, m in qmods[:-1]:
                if not (num.same_bits(m.input_scale.detach(), others[n][0]) and num.same_bits(m.output_scale.detach(), others[n][1])):
                    out["violations"].append(violation(PID, case, dict(fields, sub="foreign_scale_changed"), f"foreign_scale_changed: calibrating only the last module changed the scales of module {n}, which saw no batch (history {seq}, split {split})"))
        except Exception as e:  # noqa
            out["violations"].append(violation(PID, case, dict(fields, sub="raised"), f"raised: calibrating the last module alone raised {type(e).__name__}: {str(e)[:160]}"))


def _histories(tier, dtname="float32", kinds=None, L=None, seqs=None):
    if seqs:
        for seq, split in seqs:
            yield tuple(seq), split
        return
    L = L or (3 if (tier == "quick" or dtname != "float32") else 4)
    for n in range(1, L + 1):
        for seq in itertools.product(kinds or KINDS, repeat=n):
            yield seq, None
            for split in range(1, n):
                yield seq, split


def _run(task):
    out = {"evals": 0, "nontrivial": 0, "points": 0, "calls": 0, "violations": [], "samples": [], "counters": {}}
    only = task.get("only")
    for seq, split in _histories(task["tier"], task["dt"], task.get("kinds"), task.get("L"), task.get("seqs")):
        if only and only != [list(seq), split]:
            continue
        out["evals"] += 1
        out["calls"] += len(seq)
        if split is None:
            out["points"] += 1
        if len(seq) >= 2:
            out["nontrivial"] += 1
        _run_history(task, seq, split, out)
    return out


def run_task(task):
    out = _run(task)
    out["nviol"] = len(out["violations"])
    seen = {}
    for v in out["violations"]:
        seen.setdefault(str(sorted(v["fields"].items())), v)
    out["violations"] = list(seen.values())[:60]
    if task["model"] == "lin_ln_lin" and task["momentum"] == 0.5 and task["a"] == "qint8" and not task["streamline"]:
        out["samples"].append({"model": "Linear->LayerNorm->Linear", "activations": "qint8", "momentum": 0.5, "history": ["x10", "unit", "zero"], "contexts": "split after batch 1"})
    return out


def crash_violation(task, info):
    return [violation(PID, dict(task), {"sub": "worker_crash", "model": task["model"]}, f"worker_crash: signal {info.get('signal')} at {info.get('journal')}")]


def replay_task(case):
    task = {k: v for k, v in case.items() if k not in ("seq", "split")}
    task["only"] = [case["seq"], case["split"]] if "seq" in case else case.get("only")
    return _run(task)["violations"]


def coverage(agg, tier, tasks):
    from ..pool import HarnessError

    if agg.nontrivial == 0:
        raise HarnessError("vacuity guard: no history of length >= 2")
    return {
        "rule": RULE,
        "states": agg.points,
        "transitions": agg.calls,
        "traces_validated_against_impl": agg.evals,
        "exhaustive": True,
        "bounds": {"max_history_length": 3 if tier == "quick" else 4, "batch_kinds": KINDS, "momenta": MOMENTA, "models": MODELS},
    }
