"""C15 - AWQ layouts are bijective, match the reference, and denote the same weights (E1, runs on CPU).

The AWQ python modules assert a CUDA device; qmc.loader imports them from the tree under test with exactly those
assert statements removed (everything else, including the other asserts, is unmodified).
"""
import importlib.util
import itertools
import os

import torch

from .. import loader, num, wq
from ..pool import journal
from ..report import violation

PID = "C15"
LEVEL = "model_checking"
RULE = (
    "layout, decided completely per shape: v2 for every (rows in {4,8,..,32}) x (cols in {64,128,192,256}), v1 (reorder on/off) for rows 1..8 x cols {8,16,..,64}: the position map of pack is "
    "recovered from base-16 digit probes of the flat index (ceil(log16(rows*cols)) matrices), must be a bijection, unpack must be its inverse, v2 must be bit-identical to external/awq/"
    "pack_intweight.py; value obliviousness: for every pair of nibble slots of the first and last packed word all 16x16 value pairs on the smallest and largest shape (8 extreme pairs on the others) + all-15 matrix; contiguous and non-contiguous sources. Representation: "
    "AWQBitsTensor vs QBitsTensor from the same (codes, scale, zero-point) over the complete element space {0..15} codes x {0..15, -128,-1,16,127} zero-points x scale set (quick ~1000 float16 "
    "scales; thorough every positive finite float16 scale) for shapes (4|8) x (128|256); back conversion qbits_tensor() and the state-dict path must restore codes, scales, zero-points exactly. "
    "Non-trivial = every probe / value pair / (zero-point, scale) group."
)
ASSUMPTIONS = [
    "CUDA gemm/gemv kernels cannot run here; only the python packing, dequantization and conversion code is exercised, on CPU, through an import hook that strips the cuda-device asserts",
    "representation tolerance: |awq - standard| <= 3u*scale*max(code, |zero-point|, 1) + 2*min_subnormal (one float16 rounding of each of scale*code and scale*zero-point)",
]


def _ref_packer():
    path = os.path.join(loader.REPO, "external", "awq", "pack_intweight.py")
    spec = importlib.util.spec_from_file_location("qmc_ref_pack_intweight", path)
    mod = importlib.util.module_from_spec(spec)
    spec.loader.exec_module(mod)
    return mod.pack_intweight


def plan(tier, seed):
    tasks = []
    for N in range(4, 33, 4):
        for K in (64, 128, 192, 256):
            tasks.append({"kind": "v2", "N": N, "K": K})
    for N, K in ((4, 64), (8, 128), (32, 256)):
        tasks.append({"kind": "v2", "N": N, "K": K, "reorder": True})
    for N in range(1, 9):
        for K in range(8, 65, 8):
            for reorder in (False, True):
                tasks.append({"kind": "v1", "N": N, "K": K, "reorder": reorder})
    scales = _scales(tier)
    CH = 64
    for shape in ((4, 128), (8, 128), (4, 256), (8, 256)):
        for lo in range(0, scales.numel(), CH):
            tasks.append({"kind": "repr", "shape": list(shape), "lo": lo, "hi": min(scales.numel(), lo + CH), "tier": tier})
    # size ladder (2^20 .. 2^23+ elements, group counts that are not multiples of small block counts) and repetition ladder
    for shape in ([(1028, 1152), (4096, 3200)] if tier == "quick" else [(1028, 1152), (2052, 2176), (4096, 3200), (4100, 4224)]):
        tasks.append({"kind": "repr", "shape": list(shape), "lo": 0, "hi": scales.numel(), "tier": tier, "first_chunk_only": True})
    for reorder in (False, True):
        tasks.append({"kind": "sweep", "layout": "v1", "reorder": reorder, "n": 140 if tier == "quick" else 400})
    tasks.append({"kind": "sweep", "layout": "v2", "reorder": False, "n": 70 if tier == "quick" else 200})
    for N, K in ([(1028, 1032), (8, 16392)] if tier == "quick" else [(1028, 1032), (8, 16392), (4100, 2056), (16388, 520)]):
        for reorder in (False, True):
            tasks.append({"kind": "v1", "N": N, "K": K, "reorder": reorder, "large": True})
    for N, K in ([(1028, 1088)] if tier == "quick" else [(1028, 1088), (4100, 2112), (16388, 576)]):
        tasks.append({"kind": "v2", "N": N, "K": K, "large": True})
    return tasks


def _scales(tier):
    allp = num.all_positive_finite_half("float16")
    if tier == "thorough":
        return allp
    return allp[::31].clone()


def _nibbles(packed, width):
    """Reference decoding of packed words into nibble slots: (..., width//4) uint8, slot s = bits [4s, 4s+4)."""
    p = packed.to(torch.int64) & ((1 << width) - 1)
    return torch.stack([(p >> (4 * s)) & 0xF for s in range(width // 4)], -1)


def _layout_task(task, out):
    from optimum.quanto.tensor.qbits.awq.packed import AWQPackedTensor, AWQPacking

    N, K = task["N"], task["K"]
    v2 = task["kind"] == "v2"
    reorder = task.get("reorder", False)
    packing = AWQPacking.V2 if v2 else AWQPacking.V1
    width = 16 if v2 else 32
    fields = {"kind": task["kind"], "reorder": reorder}
    ref_pack = _ref_packer() if v2 else None
    idx = torch.arange(N * K, dtype=torch.int64).reshape(N, K)
    D = 1
    while 16**D < N * K:
        D += 1
    only = task.get("only")

    def bad(sub, msg, c):
        out["violations"].append(violation(PID, dict(task, only=c), dict(fields, sub=sub), f"{sub}: {task['kind']} {N}x{K} reorder={reorder}: {msg}"))

    def pk(t):
        if v2 and task.get("reorder"):
            return AWQPackedTensor.pack(t, packing=packing, reorder=True)  # the flag is accepted for v2 too (it has no effect there)
        return AWQPackedTensor.pack(t, packing=packing, reorder=reorder) if not v2 else AWQPackedTensor.pack(t, packing=packing)

    # (i) position recovery
    digits = []
    for d in range(D):
        c = ["probe", d]
        if only and only != c:
            continue
        M = ((idx // 16**d) % 16).to(torch.uint8)
        out["evals"] += 1
        out["calls"] += 2
        out["points"] += 1
        out["nontrivial"] += 1
        journal(repr(dict(task, only=c)))
        try:
            p = pk(M)
            u = p.unpack()
        except Exception as e:  # noqa
            bad("raised", f"pack/unpack raised {type(e).__name__}: {e}", c)
            return
        want_dtype = torch.int16 if v2 else torch.int32
        want_shape = (N // 4, K) if v2 else (N, K // 8)
        if p._data.dtype != want_dtype or tuple(p._data.shape) != want_shape:
            bad("packed_shape", f"packed payload {p._data.dtype}{tuple(p._data.shape)}, expected {want_dtype}{want_shape}", c)
            return
        if tuple(u.shape) != (N, K) or not torch.equal(u.to(torch.uint8), M):
            bad("not_inverse", f"unpack(pack(M)) != M for digit probe {d}", c)
        # wrappers made from the packed tensor (detach(), as used by nn.Parameter / freeze) must denote the same matrix: same
        # payload bits, same layout flags, same unpack.  (__tensor_flatten__/__tensor_unflatten__ is deliberately not demanded:
        # on the pinned tree unflatten cannot parse the flattened `packing` string - outside what C15 states, see DESIGN 6.)
        for how in ("detach", "parameter"):
            try:
                if how == "detach":
                    pd = p.detach()
                else:
                    pd = torch.nn.Parameter(p, requires_grad=False).data
                same = (type(pd) is AWQPackedTensor and torch.equal(pd._data, p._data) and pd._packing == p._packing and bool(pd._reorder) == bool(p._reorder)
                        and tuple(pd.shape) == tuple(p.shape) and torch.equal(pd.unpack().to(torch.uint8), M))
            except Exception as e:  # noqa
                same = False
                how += f" raised {type(e).__name__}: {str(e)[:120]}"
            if not same:
                bad("rewrap_differs", f"{how} of the packed tensor does not unpack to the packed matrix / loses layout flags (digit probe {d})", c)
        if v2:
            r = ref_pack(M.to(torch.int32), interleave=4, kstride=64)  # the reference packer expects int32 input (as in its own test)
            if r.dtype != p._data.dtype or not torch.equal(r, p._data):
                bad("differs_from_reference", f"pack_v2 differs from external/awq pack_intweight on digit probe {d}", c)
        digits.append(_nibbles(p._data, width))
        # the same 4-bit matrix held in other integer dtypes (the library's own v1 unpack() returns int8) packs identically
        for idt in (torch.int8, torch.int16, torch.int32):
            try:
                pi = pk(M.to(idt))
                if pi._data.dtype != p._data.dtype or not torch.equal(pi._data, p._data) or not torch.equal(pi.unpack().to(torch.uint8), M):
                    bad("input_dtype_dependent", f"packing the same matrix held as {idt} gives a different payload / unpack (digit probe {d})", c)
            except Exception as e:  # noqa
                bad("input_dtype_dependent", f"packing the matrix held as {idt} raised {type(e).__name__}: {e}", c)
        # non-contiguous source (same values through a transposed buffer)
        Mt = M.t().contiguous().t()
        p2 = pk(Mt)
        if not torch.equal(p2._data, p._data) or not torch.equal(p2.unpack().to(torch.uint8), M):
            bad("layout_dependent", f"packing a non-contiguous view of the same matrix gives a different payload / unpack (digit probe {d})", c)
    if len(digits) == D:
        src = sum(digits[d].to(torch.int64) * 16**d for d in range(D)).flatten()
        if sorted(src.tolist()) != list(range(N * K)):
            bad("not_bijective", "the position map recovered from the digit probes is not a permutation of the source positions", ["probe", "all"])
        task["_posmap"] = src
    # (ii) value obliviousness: all 16x16 value pairs in every pair of slots of the first and the last packed word
    if task.get("large"):
        task.pop("_posmap", None)
        return
    if only is None or only[0] == "pairs":
        if "_posmap" in task:
            src = task["_posmap"].reshape(-1, width // 4)  # word -> source flat positions per slot
            nslots = width // 4
            for word in (0, src.shape[0] - 1):
                for s1, s2 in itertools.combinations(range(nslots), 2):
                    c = ["pairs", word, s1, s2]
                    if only and only != c:
                        continue
                    a = torch.arange(16).repeat_interleave(16)
                    b = torch.arange(16).repeat(16)
                    # 256 matrices at once are too big for unpack_v2's numpy path: do them one by one but cheaply
                    okall = True
                    full = (N, K) in ((4, 64), (32, 256), (1, 8), (8, 64))  # all 256 value pairs on the smallest and largest shape
                    for va, vb in zip(a.tolist(), b.tolist()) if full else ((0, 15), (15, 0), (15, 15), (8, 7), (7, 8), (1, 14), (9, 9), (15, 8)):
                        M = torch.zeros(N * K, dtype=torch.uint8)
                        M[src[word, s1]] = va
                        M[src[word, s2]] = vb
                        M = M.reshape(N, K)
                        p = pk(M)
                        got = int(p._data.flatten()[word].item()) & ((1 << width) - 1)
                        want = (va << (4 * s1)) | (vb << (4 * s2))
                        u = p.unpack().to(torch.uint8)
                        out["evals"] += 1
                        out["calls"] += 2
                        if got != want or not torch.equal(u, M):
                            okall = False
                            bad("value_dependent", f"values ({va},{vb}) in slots ({s1},{s2}) of word {word}: packed word {got:#x} (expected {want:#x}) / unpack differs", c)
                            break
                    out["points"] += 1
                    out["nontrivial"] += 1
            c = ["pairs", "all15"]
            M = torch.full((N, K), 15, dtype=torch.uint8)
            p = pk(M)
            out["evals"] += 1
            if not torch.equal(p.unpack().to(torch.uint8), M) or not bool((_nibbles(p._data, width) == 15).all()):
                bad("value_dependent", "all-15 matrix does not round trip", c)
    task.pop("_posmap", None)


def _sweep_task(task, out):
    """Repetition ladder: many distinct widths are packed and unpacked in one process, twice around, and every packed tensor is
    kept and unpacked again at the end (caches keyed on shape that evict, wrap or go stale after many entries)."""
    from optimum.quanto.tensor.qbits.awq.packed import AWQPackedTensor, AWQPacking

    v2 = task["layout"] == "v2"
    reorder = task["reorder"]
    fields = {"kind": "sweep", "layout": task["layout"], "reorder": reorder}
    held = []
    widths = [(64 if v2 else 8) * (i + 1) for i in range(task["n"])]
    for rnd in range(2):
        for K in widths:
            N = 4 if v2 else 2
            i_ = torch.arange(N * K, dtype=torch.int64)
            M = ((((i_ * 40503) >> 5) + (i_ >> 9) + rnd) % 16).to(torch.uint8).reshape(N, K)
            c = [rnd, K]
            case = dict(task, only=c)
            out["evals"] += 1
            out["calls"] += 2
            out["points"] += 1
            out["nontrivial"] += 1
            try:
                p = AWQPackedTensor.pack(M, packing=AWQPacking.V2) if v2 else AWQPackedTensor.pack(M, packing=AWQPacking.V1, reorder=reorder)
                u = p.unpack()
                okk = tuple(u.shape) == (N, K) and torch.equal(u.to(torch.uint8), M)
            except Exception as e:  # noqa
                out["violations"].append(violation(PID, case, dict(fields, sub="raised"), f"raised: sweep round {rnd} width {K}: {type(e).__name__}: {str(e)[:160]}"))
                continue
            if not okk:
                out["violations"].append(violation(PID, case, dict(fields, sub="not_inverse"), f"not_inverse: unpack(pack(M)) != M for width {K} in round {rnd} of a sweep over {len(widths)} widths ({task['layout']}, reorder={reorder})"))
            held.append((c, M, p))
    # one layout unpacked many times (the same weight evaluated at every forward pass), including sizes between 2^15 and 2^16
    for N, K in (((64, 768), (128, 384), (192, 256), (4, 64), (256, 256)) if v2 else ((2, 8), (64, 1000), (3, 16384 + 8))):
        i_ = torch.arange(N * K, dtype=torch.int64)
        M = ((((i_ * 40503) >> 5) + (i_ >> 9) + (i_ >> 15)) % 16).to(torch.uint8).reshape(N, K)  # not periodic in the flat index
        c = ["same", N, K]
        try:
            p = AWQPackedTensor.pack(M, packing=AWQPacking.V2) if v2 else AWQPackedTensor.pack(M, packing=AWQPacking.V1, reorder=reorder)
            for i in range(task.get("same", 130)):
                u = p.unpack()
                out["calls"] += 1
                if tuple(u.shape) != (N, K) or not torch.equal(u.to(torch.uint8), M):
                    out["violations"].append(violation(PID, dict(task, only=c), dict(fields, sub="repeat_not_inverse"), f"repeat_not_inverse: unpack #{i + 1} of the same {N}x{K} packed tensor differs from its source ({task['layout']}, reorder={reorder})"))
                    break
        except Exception as e:  # noqa
            out["violations"].append(violation(PID, dict(task, only=c), dict(fields, sub="raised"), f"raised: repeated unpack of {N}x{K}: {type(e).__name__}: {str(e)[:160]}"))
    for c, M, p in held:
        try:
            u = p.unpack()
            okk = tuple(u.shape) == M.shape and torch.equal(u.to(torch.uint8), M)
        except Exception:
            okk = False
        if not okk:
            out["violations"].append(violation(PID, dict(task, only=c), dict(fields, sub="held_not_inverse"), f"held_not_inverse: a packed tensor of width {c[1]} kept from round {c[0]} no longer unpacks to its source after the whole sweep"))
            break


def _repr_task(task, out):
    from optimum.quanto import QBitsTensor
    from optimum.quanto.tensor.qbits.awq.qbits import AWQBitsTensor

    N, K = task["shape"]
    gs = 128
    G = K // gs
    scales = _scales(task["tier"])[task["lo"]:task["hi"]]
    zps = list(range(16)) + [-128, -1, 16, 127]
    qt = num.qt("qint4")
    only = task.get("only")
    u = num.UNIT["float16"]
    ng = N * G
    # codes: every group holds every code value 8 times, in a group-dependent order
    base_codes = (torch.arange(gs).view(1, gs) * 5 + torch.arange(ng).view(ng, 1) * 3) % 16
    pairs = [(z, s) for s in scales.tolist() for z in zps]
    for lo in range(0, len(pairs), ng):
        if task.get("first_chunk_only") and lo > 0:
            break
        chunk = pairs[lo:lo + ng]
        if len(chunk) < ng:
            # more groups than (zero-point, scale) pairs: spread the pairs so that every region of the tensor (in particular its
            # first and last groups) sees small and large scales
            chunk = [pairs[(i * 7919 + lo) % len(pairs)] for i in range(ng)]
        c = [lo]
        if only and only != c:
            continue
        zp = torch.tensor([z for z, _ in chunk], dtype=torch.int8).reshape(ng, 1)
        sc = torch.tensor([s for _, s in chunk], dtype=torch.float16).reshape(ng, 1)
        codes = base_codes.to(torch.uint8)
        fields = {"kind": "repr"}
        case = dict(task, only=c)
        journal(repr(case))
        out["evals"] += ng * gs
        out["calls"] += 2
        out["points"] += ng
        out["nontrivial"] += ng
        try:
            std = QBitsTensor(qt, 0, gs, torch.Size((N, K)), (K, 1), codes.clone(), sc.clone(), zp.clone())
            d_std = std.dequantize().to(torch.float64)
            # the optimized tensor is built from the standard tensor's own inner tensors, like QBitsTensor.optimize()/create() do
            src = (std._data.unpack(), std._scale, std._zeropoint)
            snap = [t.clone() for t in src]
            awq = AWQBitsTensor(qt, 0, gs, torch.Size((N, K)), (K, 1), *src)
            if N * K >= 1 << 20:
                num.poison(N * K * 2, N * K)
            d_awq = awq.dequantize().to(torch.float64)
            if not all(torch.equal(a, b) for a, b in zip(src, snap)) or not bool((std.dequantize().to(torch.float64) == d_std).all()):
                out["violations"].append(violation(PID, case, dict(fields, sub="source_modified"),
                                                   f"source_modified: building the AWQ representation modified the codes/scale/zero-point tensors it was given (the standard tensor sharing them no longer denotes the same weights) ({N}x{K})"))
        except Exception as e:  # noqa
            out["violations"].append(violation(PID, case, dict(fields, sub="raised"), f"raised: building/dequantizing the AWQ representation raised {type(e).__name__}: {str(e)[:200]}"))
            continue
        if tuple(d_awq.shape) != (N, K):
            out["violations"].append(violation(PID, case, dict(fields, sub="shape"), f"shape: AWQ dequantize gives {tuple(d_awq.shape)}"))
            continue
        gid, pos, _, _ = wq.group_ids((N, K), 0, gs)
        s_e = sc.to(torch.float64).flatten()[gid]
        z_e = zp.to(torch.float64).flatten()[gid]
        c_e = codes.to(torch.float64).reshape(N, K)
        # independent value of the standard representation: scale * (code - zero-point) (int8 arithmetic wraps for the extremes)
        diff = ((c_e - z_e + 128) % 256) - 128
        tol = 3 * u * s_e * torch.maximum(torch.maximum(c_e, z_e.abs()), torch.ones_like(c_e)) + 2 * num.QSUB["float16"]
        fin = torch.isfinite(d_std) & torch.isfinite(d_awq)
        bad = ((d_awq - d_std).abs() > tol) & fin
        # at the float16 overflow boundary one rounding decides between 65504 and inf: only a mismatch below it counts
        inf_mismatch = (torch.isfinite(d_std) != torch.isfinite(d_awq)) & ((s_e * torch.maximum(c_e, z_e.abs())) < 60000) & ((s_e * diff).abs() < 65504.0 * (1 - 2.0**-10))
        if bool(bad.any()) or bool(inf_mismatch.any()):
            m = bad | inf_mismatch
            i = tuple(m.nonzero()[0].tolist())
            extreme = bool((z_e[i] < 0) or (z_e[i] > 15))
            out["violations"].append(violation(PID, case, dict(fields, sub="dequantize_differs", zp_out_of_range=extreme),
                                               f"dequantize_differs: AWQ {float(d_awq[i])!r} vs standard {float(d_std[i])!r} for code {int(c_e[i])} zero-point {int(z_e[i])} scale {float(s_e[i])!r} ({N}x{K})"))
        # back conversion and serialization must restore codes, scales and zero-points exactly
        in_range = bool(((zp >= 0) & (zp <= 15)).all())
        # the AWQ representation stores -zero-point*scale in float16: not invertible when that product overflows
        overflow = bool(((zp.to(torch.float64).abs() * sc.to(torch.float64)) >= 65504.0).any())
        # the third and fourth routes repeat the conversion after the object returned by the first one was rescaled in place through
        # the public operators (`q *= 2; q /= 8`): the AWQ tensor must still hand out the original representation (a conversion
        # that memoises its components and an in-place operator that writes through them cooperate otherwise)
        for route in ("qbits_tensor", "state_dict", "qbits_tensor_after_inplace", "state_dict_after_inplace"):
            try:
                if route.endswith("_after_inplace"):
                    first = awq.qbits_tensor()
                    first *= 2
                    first /= 8
                    if not bool(((awq.dequantize().to(torch.float64) == d_awq) | ~torch.isfinite(d_awq)).all()):
                        out["violations"].append(violation(PID, case, dict(fields, sub="back_conversion", route=route, zp_out_of_range=not in_range, zp_scale_overflow=overflow),
                                                           f"back_conversion: rescaling the tensor returned by qbits_tensor() in place changed what the AWQ tensor dequantizes to ({N}x{K})"))
                if route.startswith("qbits_tensor"):
                    back = awq.qbits_tensor()
                else:
                    sd = {}
                    awq.save_to_state_dict(sd, "w.", False)
                    back = QBitsTensor.load_from_state_dict(dict(sd), "w.")
                ok = (
                    type(back) is QBitsTensor
                    and torch.equal(back._data.unpack(), std._data.unpack())
                    and num.same_bits(back._scale.reshape(-1), sc.reshape(-1))
                    and back._zeropoint.dtype == torch.int8
                    and torch.equal(back._zeropoint.reshape(-1), zp.reshape(-1))
                    and back._group_size == gs
                    and tuple(back.shape) == (N, K)
                    and bool(((back.dequantize().to(torch.float64) == d_std) | ~fin).all())
                )
                if not ok:
                    out["violations"].append(violation(PID, case, dict(fields, sub="back_conversion", route=route, zp_out_of_range=not in_range, zp_scale_overflow=overflow),
                                                       f"back_conversion: {route} of an AWQBitsTensor does not restore the original codes / scales / zero-points ({N}x{K})"))
            except Exception as e:  # noqa
                out["violations"].append(violation(PID, case, dict(fields, sub="back_conversion", route=route, zp_out_of_range=not in_range, zp_scale_overflow=overflow),
                                                   f"back_conversion: {route} raised {type(e).__name__}: {str(e)[:160]}"))


def _run(task):
    out = {"evals": 0, "nontrivial": 0, "points": 0, "calls": 0, "violations": [], "samples": [], "counters": {}}
    if task["kind"] == "repr":
        _repr_task(task, out)
    elif task["kind"] == "sweep":
        _sweep_task(task, out)
    else:
        _layout_task(dict(task), out)
    out["counters"][task["kind"] + "_cases"] = out["points"]
    out["counters"]["awq_asserts_stripped"] = sum(loader.AWQ_STRIPPED.values())
    return out


def run_task(task):
    out = _run(task)
    out["nviol"] = len(out["violations"])
    seen = {}
    for v in out["violations"]:
        seen.setdefault(str(sorted(v["fields"].items())), v)
    out["violations"] = list(seen.values())[:40]
    if task["kind"] == "v2" and task["N"] == 8 and task["K"] == 128:
        out["samples"].append({"layout": "v2", "shape": [8, 128], "probes": "3 base-16 digit matrices of the flat index -> position permutation; 6 slot pairs x 256 value pairs x 2 words"})
    if task["kind"] == "repr" and task["lo"] == 0 and task["shape"] == [8, 256]:
        out["samples"].append({"representation": "AWQBitsTensor vs QBitsTensor", "shape": [8, 256], "groups": 16, "each group": "one (zero-point, float16 scale) pair, all 16 codes"})
    return out


def crash_violation(task, info):
    return [violation(PID, dict(task), {"kind": task["kind"], "sub": "worker_crash"}, f"worker_crash: signal {info.get('signal')} at {info.get('journal')}")]


def replay_task(case):
    return _run(case)["violations"]


def coverage(agg, tier, tasks):
    from ..pool import HarnessError

    for k in ("v1_cases", "v2_cases", "repr_cases"):
        if agg.counters.get(k, 0) == 0:
            raise HarnessError(f"vacuity guard: {k} == 0")
    if agg.counters.get("awq_asserts_stripped", 0) == 0:
        raise HarnessError("vacuity guard: the AWQ import hook did not strip any cuda assert (are the modules imported through it?)")
    return {
        "rule": RULE,
        "states": agg.points,
        "transitions": agg.calls,
        "traces_validated_against_impl": agg.calls,
        "exhaustive": True,
        "float16_scales": int(_scales(tier).numel()),
        "counters": dict(sorted(agg.counters.items())),
    }
