"""C03 - scale selection is non-saturating, full-range and local to its axis/group (E1, metamorphic)."""
import itertools

import torch

from .. import num, wq
from ..report import violation

PID = "C03"
LEVEL = "model_checking"
RULE = (
    "targets {AbsmaxOptimizer, absmax_scale x 3 qtypes, MaxOptimizer, quantize_weight x 6 qtypes} x every shape of rank 1..4 "
    "(dims {1,2,3,4}, numel<=64; thorough adds 8) x axis {None,0,-1} x group_size {None}+divisors x dtype {f32,f16,bf16} x every "
    "cyclic assignment of 14 degenerate row/group classes (rows have ranges 1000x apart); locality: for every kept row/group i, "
    "every other j and every perturbation in {zeros, x1000, x2^-10, negate, big constant} plus all row swaps, reversal, rotation. "
    "Non-trivial = tensors with >=2 rows/groups of different range."
)
ASSUMPTIONS = [
    "tolerances: scale <= ideal*(1+4u) + 2*min_subnormal; |x| <= (scale+min_subnormal)*qmax*(1+4u) + 2*min_subnormal (u = unit round-off of the dtype; the scale is rounded to the dtype, with an absolute error of one quantum when it underflows)",
    "rank-1 tensors: per-axis means per-tensor (the suite's own convention)",
    "AbsmaxOptimizer is only given `bits`, so it is judged against absmax/127; that float8 weights do not use absmax/qmax(float8) is reported separately as sub=float8_range",
]
PERTURB = ["zeros", "x1000", "x2^-10", "negate", "bigconst"]
ALLQ = ["qint8", "qfloat8", "qfloat8_e4m3fn", "qfloat8_e5m2", "qint4", "qint2"]


def _divisors(n):
    return [d for d in range(1, n + 1) if n % d == 0]


def _shapes(dims, max_numel):
    for rank in range(1, 5):
        for shape in itertools.product(dims, repeat=rank):
            n = 1
            for d in shape:
                n *= d
            if n <= max_numel:
                yield shape


def plan(tier, seed):
    tasks = []
    dims = (1, 2, 3, 4) if tier == "quick" else (1, 2, 3, 4, 8)
    mx = 64 if tier == "quick" else 256
    shapes = list(_shapes(dims, mx))
    CH = 60 if tier == "quick" else 40
    for dt in ("float32", "float16", "bfloat16"):
        for lo in range(0, len(shapes), CH):
            tasks.append({"kind": "sym", "dt": dt, "tier": tier, "lo": lo, "hi": min(len(shapes), lo + CH)})
            tasks.append({"kind": "aff", "dt": dt, "tier": tier, "lo": lo, "hi": min(len(shapes), lo + CH)})
        for q in ALLQ:
            tasks.append({"kind": "loc", "dt": dt, "q": q, "tier": tier})
            # size ladder: 2^20 .. 2^23+ elements, row counts that are not multiples of any block size
            if dt == "float32" or tier == "thorough":
                shapes_l = [[1031, 1024]] + ([[8193, 1024]] if (tier == "thorough" or q in ("qint8", "qfloat8_e4m3fn", "qint4")) else [])
                if tier == "thorough" and dt == "float32":
                    shapes_l.append([4100, 4224])
                for shp in shapes_l:
                    tasks.append({"kind": "large", "dt": dt, "q": q, "tier": tier, "shape": shp})
    return tasks


def _table(ng, gsz, dtname, shift):
    C = wq.CLASSES
    return torch.stack([wq.gen_class(C[(k + shift) % len(C)], gsz, dtname, k) for k in range(ng)])


def _sym_judge(x, scale, axis, qmax, dtname):
    """Returns list of (sub, msg)."""
    out = []
    if scale.dtype != x.dtype:
        out.append(("scale_dtype", f"scale dtype {scale.dtype} for source {x.dtype}"))
    if axis is None:
        gid = torch.zeros(x.shape, dtype=torch.int64)
        ng = 1
    else:
        gid, _, ng, _ = wq.group_ids(x.shape, axis, None)
    if scale.numel() != ng:
        out.append(("scale_count", f"{scale.numel()} scale value(s) for {ng} kept index/indices (shape {tuple(x.shape)} axis {axis})"))
        return out
    if ng > 1:
        want = [1] * x.ndim
        want[0 if axis == 0 else -1] = ng
        if list(scale.shape) != want:
            out.append(("scale_shape", f"scale shape {tuple(scale.shape)} does not broadcast along axis {axis} of {tuple(x.shape)}"))
            return out
    elif axis is None and scale.ndim != 0:
        out.append(("scale_shape", f"per-tensor scale has shape {tuple(scale.shape)}"))
    x64 = x.to(torch.float64)
    s64 = scale.to(torch.float64).flatten()
    if not bool(torch.isfinite(s64).all()):
        out.append(("scale_nonfinite", f"non-finite scale for a finite tensor: {s64.tolist()[:4]}"))
        return out
    am = wq.group_absmax(x64, gid, ng)
    u = num.UNIT[dtname]
    q2 = 2 * num.QSUB[dtname]
    ideal = am / qmax
    big = s64 > ideal * (1 + 4 * u) + q2
    if bool(big.any()):
        i = int(big.nonzero()[0])
        out.append(("scale_too_large", f"scale {float(s64[i])!r} > absmax/qmax = {float(ideal[i])!r} (row {i}, qmax {qmax})"))
    # the scale is itself rounded to the dtype: absolute error up to one subnormal quantum when it underflows
    sat = am > (s64 + num.QSUB[dtname]) * qmax * (1 + 4 * u) + q2
    if bool(sat.any()):
        i = int(sat.nonzero()[0])
        out.append(("saturating", f"row {i}: absmax {float(am[i])!r} > scale*qmax = {float(s64[i] * qmax)!r}"))
    return out


def _sym_task(task, out):
    from optimum.quanto import AbsmaxOptimizer, absmax_scale, quantize_weight

    dtname, tier = task["dt"], task["tier"]
    dt = num.DTYPES[dtname]
    dims = (1, 2, 3, 4) if tier == "quick" else (1, 2, 3, 4, 8)
    shapes = list(_shapes(dims, 64 if tier == "quick" else 256))[task["lo"]:task["hi"]]
    only = task.get("only")
    opt = AbsmaxOptimizer()
    for shape in shapes:
        for axis in (None, 0, -1):
            ng = 1 if axis is None else wq.group_ids(shape, axis, None)[2]
            numel = 1
            for d in shape:
                numel *= d
            gsz = numel // ng
            for shift in range(len(wq.CLASSES)):
                if only and only[:3] != [list(shape), axis, shift]:
                    continue
                table = _table(ng, gsz, dtname, shift)
                x = wq.fill(shape, 0 if axis is None else axis, None, table, dt) if axis is not None or len(shape) == 1 else table.reshape(-1)[: numel].to(dt).reshape(shape)
                out["points"] += 1
                if ng > 1:
                    out["nontrivial"] += 1
                targets = [("AbsmaxOptimizer", None, 127.0)] + [("absmax_scale", q, num.float8.QMAX[q]) for q in num.Q8]
                if axis is not None:
                    targets += [("quantize_weight", q, 127.0) for q in ("qint8", "qfloat8", "qfloat8_e4m3fn", "qfloat8_e5m2")]
                for tname, q, qmax in targets:
                    if only and only[3:] != [tname, q]:
                        continue
                    out["evals"] += 1
                    out["calls"] += 1
                    fields = {"kind": "sym", "target": tname, "qtype": q, "dtype": dtname, "axis": axis}
                    case = dict(task, only=[list(shape), axis, shift, tname, q])
                    try:
                        if tname == "AbsmaxOptimizer":
                            sc = opt(x, 8, axis)
                            jaxis = axis
                        elif tname == "absmax_scale":
                            sc = absmax_scale(x, num.qt(q), axis)
                            jaxis = axis
                        else:
                            if len(shape) == 1 and shape[0] != 1:
                                continue  # 1-D per-axis is rejected (C14 judges the exception type)
                            qt_ = quantize_weight(x, num.qt(q), axis)
                            sc = qt_._scale
                            # expected axis: the requested one, per-tensor only when that axis has a single index
                            jaxis = None if shape[axis] == 1 else axis
                            if qt_.axis != jaxis:
                                out["violations"].append(violation(PID, case, dict(fields, sub="axis"), f"axis: quantize_weight({q}) of shape {shape} along axis {axis} reports axis {qt_.axis}, expected {jaxis}"))
                                continue
                            if tuple(qt_.shape) != tuple(x.shape):
                                out["violations"].append(violation(PID, case, dict(fields, sub="meta"), f"meta: quantized shape {tuple(qt_.shape)}"))
                                continue
                    except Exception as e:  # noqa
                        out["violations"].append(violation(PID, case, dict(fields, sub="raised"), f"raised: {tname} raised {type(e).__name__}: {e} for shape {shape} axis {axis}"))
                        continue
                    for sub, msg in _sym_judge(x, sc, jaxis, qmax, dtname):
                        out["violations"].append(violation(PID, case, dict(fields, sub=sub), f"{sub}: {tname}({q}) shape {shape} axis {axis}: {msg}"))
                    if tname == "quantize_weight" and q != "qint8":
                        # full range relative to the float8 maximum (see ASSUMPTIONS)
                        for sub, msg in _sym_judge(x, sc, jaxis, num.float8.QMAX[q], dtname):
                            if sub == "scale_too_large":
                                out["violations"].append(violation(PID, case, dict(fields, sub="float8_range"), f"float8_range: {tname}({q}) {msg}"))
                                break


def _aff_task(task, out):
    from optimum.quanto import MaxOptimizer, quantize_weight

    dtname, tier = task["dt"], task["tier"]
    dt = num.DTYPES[dtname]
    dims = (1, 2, 3, 4) if tier == "quick" else (1, 2, 3, 4, 8)
    shapes = list(_shapes(dims, 64 if tier == "quick" else 256))[task["lo"]:task["hi"]]
    only = task.get("only")
    opt = MaxOptimizer()
    for shape in shapes:
        numel = 1
        for d in shape:
            numel *= d
        for axis in (0, -1):
            n = 1 if len(shape) == 1 else numel // shape[axis]
            for gs in [None] + _divisors(n):
                gid, pos, ng, gsz = wq.group_ids(shape, axis, gs)
                for shift in range(0, len(wq.CLASSES), 1 if ng <= 4 else 3):
                    for bits in (2, 4):
                        if only and only != [list(shape), axis, gs, shift, bits]:
                            continue
                        table = _table(ng, gsz, dtname, shift)
                        x = wq.fill(shape, axis, gs, table, dt)
                        out["points"] += 1
                        out["evals"] += 2
                        out["calls"] += 2
                        if ng > 1:
                            out["nontrivial"] += 1
                        fields = {"kind": "aff", "bits": bits, "dtype": dtname, "axis": axis, "grouped": gs is not None}
                        case = dict(task, only=[list(shape), axis, gs, shift, bits])
                        try:
                            sc, zp = opt(x, bits, axis, gs)
                            q = quantize_weight(x, num.qt("qint2" if bits == 2 else "qint4"), axis, gs)
                        except Exception as e:  # noqa
                            out["violations"].append(violation(PID, case, dict(fields, sub="raised"), f"raised: {type(e).__name__}: {e}"))
                            continue
                        if not (num.same_bits(sc, q._scale) and torch.equal(zp, q._zeropoint)):
                            out["violations"].append(violation(PID, case, dict(fields, sub="optimizer_mismatch"), "optimizer_mismatch: quantize_weight does not use the default optimizer's scale/zeropoint"))
                        if sc.dtype != x.dtype:
                            out["violations"].append(violation(PID, case, dict(fields, sub="scale_dtype"), f"scale_dtype: {sc.dtype}"))
                        if sc.numel() != ng:
                            out["violations"].append(violation(PID, case, dict(fields, sub="scale_count"), f"scale_count: {sc.numel()} scales for {ng} groups, shape {shape} axis {axis} gs {gs}"))
                            continue
                        for sub, n_, msg, extra in wq.scale_judge_affine(x, q, bits, axis, gs, dtname):
                            out["violations"].append(violation(PID, case, dict(fields, sub=sub, **extra), f"{sub}: {msg}"))


def _perturb(v, kind):
    if kind == "zeros":
        return torch.zeros_like(v)
    if kind == "x1000":
        return v * 1000
    if kind == "x2^-10":
        return v * 2.0**-10
    if kind == "negate":
        return -v
    if kind == "bigconst":
        return torch.full_like(v, 12345.0)
    raise ValueError(kind)


def _observe(x, qname, axis, gs):
    """Per-element observables in source layout: (dq bits, code values, scale per element bits, zp per element)."""
    from optimum.quanto import quantize_weight

    q = quantize_weight(x, num.qt(qname), axis, gs)
    dq = q.dequantize()
    if qname in ("qint2", "qint4"):
        gid, pos, ng, gsz = wq.group_ids(x.shape, axis, gs)
        codes = wq.ref_ungroup_codes(q._data.unpack(), x.shape, axis).to(torch.int64)
        se = num.bits_of(q._scale).flatten().to(torch.int64)[gid]
        ze = q._zeropoint.flatten().to(torch.int64)[gid]
    else:
        codes = num.bits_of(q._data).to(torch.int64).reshape(x.shape)
        sb = num.bits_of(q._scale).to(torch.int64)
        se = sb.expand(x.shape) if sb.ndim else sb.expand(x.shape)
        ze = torch.zeros(x.shape, dtype=torch.int64)
    return torch.stack([num.bits_of(dq).to(torch.int64).reshape(x.shape), codes, se.reshape(x.shape) if se.shape != x.shape else se, ze])


def _loc_task(task, out):
    dtname, qname, tier = task["dt"], task["q"], task["tier"]
    dt = num.DTYPES[dtname]
    affine = qname in ("qint2", "qint4")
    only = task.get("only")
    shapes = [(2, 4), (3, 2), (4, 4), (2, 2, 3), (3, 4, 2), (2, 3, 2, 2)]
    if tier == "thorough":
        shapes += [(4, 8), (8, 4), (2, 4, 4), (3, 3, 3), (2, 2, 2, 4), (16, 2), (2, 16)]
    for shape in shapes:
        numel = 1
        for d in shape:
            numel *= d
        for axis in (0, -1):
            n = numel // shape[axis]
            gss = [None] + ([d for d in _divisors(n) if d > 1 and d < n] if affine else [])
            for gs in gss:
                gid, pos, ng, gsz = wq.group_ids(shape, axis, gs)
                for shift in (0, 5, 9):
                    table = _table(ng, gsz, dtname, shift)
                    x = wq.fill(shape, axis, gs, table, dt)
                    try:
                        base = _observe(x, qname, axis, gs)
                    except Exception as e:  # noqa
                        out["violations"].append(violation(PID, dict(task), {"kind": "loc", "qtype": qname, "dtype": dtname, "sub": "raised"}, f"raised: {type(e).__name__}: {e}"))
                        continue
                    # perturbations of group j must not change group i
                    for j in range(ng):
                        for kind in PERTURB:
                            c = [list(shape), axis, gs, shift, "perturb", j, kind]
                            if only and only != c:
                                continue
                            t2 = table.clone()
                            t2[j] = _perturb(table[j], kind)
                            x2 = wq.fill(shape, axis, gs, t2, dt)
                            obs = _observe(x2, qname, axis, gs)
                            out["evals"] += 1
                            out["calls"] += 1
                            out["points"] += 1
                            out["nontrivial"] += 1
                            keep = (gid != j).unsqueeze(0).expand_as(obs)
                            if not torch.equal(obs[keep], base[keep]):
                                changed = sorted(set(gid[((obs != base).any(0)) & (gid != j)].tolist()))
                                out["violations"].append(
                                    violation(PID, dict(task, only=c), {"kind": "loc", "qtype": qname, "dtype": dtname, "sub": "locality", "axis": axis, "grouped": gs is not None},
                                              f"locality: changing group {j} ({kind}) changed the quantized values/scale of group(s) {changed} (shape {shape} axis {axis} group_size {gs})"))
                    # permutations of whole rows along the kept axis
                    R = shape[axis]
                    perms = [("reverse", list(range(R))[::-1]), ("rotate", list(range(1, R)) + [0])]
                    perms += [(f"swap{a}{b}", [b if k == a else a if k == b else k for k in range(R)]) for a in range(R) for b in range(a + 1, R)]
                    for pname, perm in perms:
                        c = [list(shape), axis, gs, shift, "perm", pname, ""]
                        if only and only != c:
                            continue
                        idx = torch.tensor(perm)
                        xp = x.index_select(0 if axis == 0 else x.ndim - 1, idx).contiguous()
                        obs = _observe(xp, qname, axis, gs)
                        want = base.index_select(1 if axis == 0 else base.ndim - 1, idx)
                        out["evals"] += 1
                        out["calls"] += 1
                        out["points"] += 1
                        out["nontrivial"] += 1
                        if not torch.equal(obs, want):
                            out["violations"].append(
                                violation(PID, dict(task, only=c), {"kind": "loc", "qtype": qname, "dtype": dtname, "sub": "permutation", "axis": axis, "grouped": gs is not None},
                                          f"permutation: quantized values do not follow their row under {pname} (shape {shape} axis {axis} group_size {gs})"))


def _large_task(task, out):
    """Size ladder: the rows / groups of a large tensor quantize exactly as they do when quantized alone (locality as a
    differential oracle: no hand-written expected value), and the chosen scales obey the range rules."""
    dtname, qname = task["dt"], task["q"]
    dt = num.DTYPES[dtname]
    shape = tuple(task["shape"])
    affine = qname in ("qint2", "qint4")
    only = task.get("only")
    C = wq.CLASSES
    base = torch.stack([wq.gen_class(c, 16, dtname, k) for k, c in enumerate(C)])
    for axis, gs in ((0, None), (0, 128)) if affine else ((0, None),):
        c = [axis, gs]
        if only and only != c:
            continue
        gid, pos, ng, gsz = wq.group_ids(shape, axis, gs)
        x = (base[gid % len(C), pos % 16] * (1.0 + ((gid * 37) % 101).to(torch.float64) / 128.0)).to(dt)  # aperiodic across groups
        fields = {"kind": "large", "qtype": qname, "dtype": dtname, "axis": axis, "grouped": gs is not None}
        case = dict(task, only=c)
        out["evals"] += 1
        out["calls"] += 1
        out["points"] += 1
        out["nontrivial"] += 1
        try:
            num.poison(x.numel() * x.element_size(), x.numel())
            obs = _observe(x, qname, axis, gs)
        except Exception as e:  # noqa
            out["violations"].append(violation(PID, case, dict(fields, sub="raised"), f"raised: large {shape} {qname}: {type(e).__name__}: {e}"))
            continue
        R = shape[0]
        for lo, hi in ((0, 7), (R // 2 - 3, R // 2 + 4), (R - 7, R), (R - 1, R)):
            if hi - lo < 2 and not affine:
                continue  # a single row would be quantized per-tensor
            part = _observe(x[lo:hi].clone(), qname, axis, gs)
            out["calls"] += 1
            if not torch.equal(part, obs[:, lo:hi]):
                out["violations"].append(violation(PID, case, dict(fields, sub="locality"), f"locality: rows {lo}:{hi} of a {shape} tensor quantize differently inside the large tensor than alone ({qname}, group_size {gs})"))
                break
        if not affine:
            from optimum.quanto import quantize_weight

            q = quantize_weight(x, num.qt(qname), axis)
            for sub, msg in _sym_judge(x, q._scale, q.axis, 127.0, dtname):
                out["violations"].append(violation(PID, case, dict(fields, sub=sub, target="quantize_weight"), f"{sub}: large {shape} {qname}: {msg}"))


def _run(task):
    out = {"evals": 0, "nontrivial": 0, "points": 0, "calls": 0, "violations": [], "samples": [], "counters": {}}
    {"sym": _sym_task, "aff": _aff_task, "loc": _loc_task, "large": _large_task}[task["kind"]](task, out)
    return out


def run_task(task):
    out = _run(task)
    out["nviol"] = len(out["violations"])
    seen = {}
    for v in out["violations"]:
        seen.setdefault(str(sorted(v["fields"].items())), v)
    out["violations"] = list(seen.values())[:60]
    out["counters"][task["kind"] + "_calls"] = out["calls"]
    if task["kind"] == "loc":
        out["samples"].append({"kind": "loc", "qtype": task["q"], "shape": [3, 4, 2], "axis": -1, "perturb": "group 1 x1000", "kept": "all other groups bit-identical"})
    elif task.get("lo") == 0:
        out["samples"].append({"kind": task["kind"], "dtype": task["dt"], "shape": [2, 3], "axis": 0, "row_classes": ["offset9", "straddle"]})
    return out


def replay_task(case):
    return _run(case)["violations"]


def coverage(agg, tier, tasks):
    from ..pool import HarnessError

    for k in ("sym_calls", "aff_calls", "loc_calls"):
        if agg.counters.get(k, 0) == 0:
            raise HarnessError(f"vacuity guard: {k} == 0")
    return {
        "rule": RULE,
        "states": agg.points,
        "transitions": agg.calls,
        "traces_validated_against_impl": agg.calls,
        "exhaustive": True,
        "counters": dict(sorted(agg.counters.items())),
    }
