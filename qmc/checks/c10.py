"""C10 - state_dict save/load round trips reproduce the quantized model exactly (E2)."""
import io
import os
import tempfile

import torch

from .. import lifecycle, models, num
from ..pool import journal
from ..report import violation

PID = "C10"
LEVEL = "model_checking"
SAVERS = ["mem", "pickle", "weights_only", "safetensors"]
TARGETS = ["same", "same_assign", "default", "requantize", "same_frozen", "reload_twice", "used_assign"]
RULE = (
    "for every configuration (6 toy models x 6 weight qtypes incl. the qfloat8 alias, grouped and ungrouped int4/int2 x activations {None,qint8,e4m3} x dtype {f32,f16,bf16}) "
    "breadth-first search over histories of {freeze, calibrate, save+load cycle (4 serializers x 6 targets: same-quantized (load_state_dict with and without assign=True), default-quantized, requantize(), same-quantized already frozen with other weights, a model that loaded another checkpoint first)} to depth 3 (quick) / 4 (thorough), "
    "continuing with the loaded model (repeated cycles). Each cycle checks: only plain tensors and strings in the state_dict; the loaded model has identical content hash (codes, scales, "
    "zero-points, qtypes, group sizes, activation scales, float weights when unfrozen), bit-identical outputs on two probe inputs, parameters on the target's device; saving again gives an "
    "equal state_dict key by key. Non-trivial = save/load cycles."
)
ASSUMPTIONS = ["only the cpu device exists", "safetensors files are written to a temporary directory under $TMPDIR"]


class St:
    def __init__(self, cfg):
        self.cfg = cfg
        self.model = models.build_quantized(cfg["model"], cfg["dt"], cfg["w"], cfg["a"])


def _events(st, tier):
    ev = ["freeze"]
    if st.cfg["a"]:
        ev.append("calib_a")
        ev.append("calib_s")  # default Calibration(): streamlining may switch some activation qtypes to None
    big = st.cfg["model"].startswith("big_")
    for s in (SAVERS if not big else ["pickle", "safetensors"]):
        for t in (TARGETS if not big else ["same", "requantize"]):
            ev.append(f"cycle:{s}:{t}")
    return ev


def _save_load(sd, saver):
    from optimum.quanto import safe_load, safe_save

    if saver == "mem":
        return dict(sd)
    if saver in ("pickle", "weights_only"):
        b = io.BytesIO()
        torch.save(sd, b)
        b.seek(0)
        return torch.load(b, weights_only=(saver == "weights_only"))
    with tempfile.TemporaryDirectory(dir=os.environ.get("TMPDIR") or None) as d:
        f = os.path.join(d, "m.safetensors")
        safe_save(sd, f)
        return safe_load(f)


def _target(cfg, target, sd):
    from optimum.quanto import quantize, requantize

    if target in ("same", "same_assign"):
        m = models.build_quantized(cfg["model"], cfg["dt"], cfg["w"], cfg["a"])
        m.load_state_dict(sd, assign=(target == "same_assign"))
        return m
    if target == "used_assign":
        # a model object that already served (inference forwards with other weights, frozen like the checkpoint) receives the
        # checkpoint with assign=True: one evaluation harness loading successive checkpoints
        from optimum.quanto import freeze

        m = models.build_quantized(cfg["model"], cfg["dt"], cfg["w"], cfg["a"])
        with torch.no_grad():
            for p in m.parameters():
                if p.dtype.is_floating_point and p.ndim >= 1:
                    p.mul_(-0.5)
        if any(k.endswith("weight._data") or k.endswith("weight._data._data") for k in sd):
            freeze(m)
        m.eval()
        with torch.no_grad():
            m(models.probe_input(cfg["model"], cfg["dt"], 0))
            m(models.probe_input(cfg["model"], cfg["dt"], 1))
        m.load_state_dict(sd, assign=True)
        return m
    if target in ("same_frozen", "reload_twice"):
        # a target that already holds (other) frozen weights: frozen before loading / a different checkpoint loaded first
        from optimum.quanto import freeze

        m = models.build_quantized(cfg["model"], cfg["dt"], cfg["w"], cfg["a"])
        with torch.no_grad():
            for p in m.parameters():
                if p.dtype.is_floating_point and p.ndim >= 1:
                    p.mul_(-0.5)
        freeze(m)
        if target == "reload_twice":
            other = {k: (v.clone() if isinstance(v, torch.Tensor) else v) for k, v in m.state_dict().items()}
            m2 = models.build_quantized(cfg["model"], cfg["dt"], cfg["w"], cfg["a"])
            m2.load_state_dict(other)
            m = m2
        m.load_state_dict(sd)
        return m
    m = models.build_float(cfg["model"], cfg["dt"])
    # perturb the float weights: everything must come from the state_dict
    with torch.no_grad():
        for p in m.parameters():
            p.mul_(0.5)
    if target == "default":
        quantize(m)
        m.load_state_dict(sd)
        return m
    requantize(m, sd)
    return m


def _apply(st, ev):
    from optimum.quanto import Calibration, freeze

    cfg = st.cfg
    if ev == "freeze":
        freeze(st.model)
    elif ev in ("calib_a", "calib_s"):
        with torch.no_grad(), Calibration(streamline=(ev == "calib_s")):
            st.model(models.probe_input(cfg["model"], cfg["dt"], 0))
    else:
        _, saver, target = ev.split(":")
        sd = _save_load(st.model.state_dict(), saver)
        st.model = _target(cfg, target, sd)
    return st


def _probe(model, cfg):
    outs = []
    with torch.no_grad():
        for k in (0, 1):
            outs.append(lifecycle.out_bytes(model(models.probe_input(cfg["model"], cfg["dt"], k))))
        if cfg["a"]:
            outs.append(lifecycle.out_bytes(model(models.quantized_probe(cfg["model"], cfg["dt"], cfg["a"]))))
    return outs


def _sd_equal(a, b):
    if list(a.keys()) != list(b.keys()):
        return f"keys differ: {sorted(set(a) ^ set(b))[:4]}"
    for k in a:
        va, vb = a[k], b[k]
        if isinstance(va, str) or isinstance(vb, str):
            if va != vb:
                return f"{k}: {va!r} != {vb!r}"
        elif lifecycle.tensor_bytes(va) != lifecycle.tensor_bytes(vb):
            return f"{k}: tensor differs"
    return None


def _explore(cfg, tier, only=None):
    depth = cfg.get("depth") or (3 if tier == "quick" else 4)
    viol = []
    counters = {"cycles": 0, "unaligned_payloads": 0}

    def on_transition(hist, ev, st):
        if only is not None and only != "direct" and (hist != only["history"] or ev != only["event"]):
            return _apply(st, ev) if len(hist) < len(only["history"]) else None
        if not ev.startswith("cycle"):
            try:
                return _apply(st, ev)
            except Exception:
                return None
        _, saver, target = ev.split(":")
        case = {"cfg": cfg, "tier": tier, "history": hist, "event": ev}
        journal(repr(case))
        frozen = all(m.frozen for _, m in models.qmodules(st.model) if m.weight_qtype is not None)
        if target in ("same_frozen", "reload_twice") and not frozen:
            return None  # loading float weights into an already frozen target is not a fresh-target round trip
        has_ln_act = cfg["model"] == "ln" and cfg["a"] is not None
        lowbit = cfg["w"] in ("qint4", "qint2")
        fields = {"model": cfg["model"], "weights": cfg["w"], "activations": cfg["a"], "dtype": cfg["dt"], "saver": saver, "target": target, "frozen": frozen,
                  "layernorm_with_activations": has_ln_act, "lowbit": lowbit, "grouped": any(getattr(m, "weight_group_size", None) for _, m in models.qmodules(st.model))}
        counters["cycles"] += 1
        try:
            sd = st.model.state_dict()
            bad = [k for k, v in sd.items() if not (type(v) is torch.Tensor or isinstance(v, str))]
            if bad:
                viol.append(violation(PID, case, dict(fields, sub="sd_value_type"), f"sd_value_type: state_dict values {bad[:3]} are {type(sd[bad[0]]).__name__}, not plain tensors or strings (history {hist})"))
            ref_hash = lifecycle.model_hash(st.model)
            ref_out = _probe(st.model, cfg)
        except Exception as e:  # noqa
            viol.append(violation(PID, case, dict(fields, sub="save_raised"), f"save_raised: state_dict()/forward raised {type(e).__name__}: {str(e)[:200]} after {hist}"))
            return None
        try:
            sd2 = _save_load(sd, saver)
        except Exception as e:  # noqa
            viol.append(violation(PID, case, dict(fields, sub="serializer_raised"), f"serializer_raised: {saver} raised {type(e).__name__}: {str(e)[:200]} after {hist} ({cfg})"))
            return None
        try:
            st.model = _target(cfg, target, dict(sd2))
        except Exception as e:  # noqa
            viol.append(violation(PID, case, dict(fields, sub="load_raised"), f"load_raised: loading into a {target} model raised {type(e).__name__}: {str(e)[:240]} after {hist} ({cfg})"))
            return None
        try:
            for _, qm in models.qmodules(st.model):
                w = qm.weight
                d = getattr(w, "_data", None)
                d = getattr(d, "_data", d)
                if isinstance(d, torch.Tensor) and d.data_ptr() % 16 != 0:
                    counters["unaligned_payloads"] += 1
            h2 = lifecycle.model_hash(st.model)
            if h2 != ref_hash:
                viol.append(violation(PID, case, dict(fields, sub="content_differs"), f"content_differs: model loaded through {saver}->{target} differs from the saved one (codes/scales/qtypes/group sizes) after {hist} ({cfg})"))
            out2 = _probe(st.model, cfg)
            if out2 != ref_out:
                viol.append(violation(PID, case, dict(fields, sub="outputs_differ"), f"outputs_differ: outputs of the model loaded through {saver}->{target} are not bit-identical after {hist} ({cfg})"))
            devs = {p.device.type for p in st.model.parameters()} | {b.device.type for b in st.model.buffers()}
            if devs != {"cpu"}:
                viol.append(violation(PID, case, dict(fields, sub="device"), f"device: loaded model has tensors on {devs}"))
            msg = _sd_equal(sd, st.model.state_dict())
            if msg:
                viol.append(violation(PID, case, dict(fields, sub="resave_differs"), f"resave_differs: saving the loaded model again gives a different state_dict: {msg} ({saver}->{target} after {hist})"))
            # replica independence: a second model built from the same deserialized state_dict then receives another checkpoint
            # (plain load_state_dict copies in place); the first replica must not change
            # (not for assign=True targets: there the caller asked for the model to adopt the state_dict's tensors)
            if target not in ("same_assign", "used_assign") and (len(hist) <= 1 or target == "requantize"):
                from optimum.quanto import freeze

                mb = _target(cfg, target, dict(sd2))
                om = models.build_quantized(cfg["model"], cfg["dt"], cfg["w"], cfg["a"])
                with torch.no_grad():
                    for p in om.parameters():
                        if p.dtype.is_floating_point and p.ndim >= 1:
                            p.mul_(0.25)
                if frozen:
                    freeze(om)
                try:
                    mb.load_state_dict({k: (v.clone() if isinstance(v, torch.Tensor) else v) for k, v in om.state_dict().items()})
                    loaded_other = True
                except Exception:
                    loaded_other = False  # whether that second load works is judged by its own cycle
                if loaded_other and lifecycle.model_hash(st.model) != ref_hash:
                    viol.append(violation(PID, case, dict(fields, sub="replica_aliasing"), f"replica_aliasing: loading another checkpoint into a second model built from the same deserialized state_dict changed the first model ({saver}->{target} after {hist})"))
        except Exception as e:  # noqa
            viol.append(violation(PID, case, dict(fields, sub="loaded_model_raised"), f"loaded_model_raised: using the model loaded through {saver}->{target} raised {type(e).__name__}: {str(e)[:200]} after {hist}"))
            return None
        return st

    on_transition.apply = _apply
    if only == "direct":
        return on_transition, viol
    if cfg.get("long"):
        res = lifecycle.long_paths(lambda: St(cfg), lambda st: _events(st, tier), on_transition, cfg["long"], 3 if tier == "quick" else 6)
    else:
        res = lifecycle.bfs_local(lambda: St(cfg), lambda st: _events(st, tier), _apply, lambda st: lifecycle.model_hash(st.model), on_transition, depth)
    res["cycles"] = counters["cycles"]
    res["unaligned_payloads"] = counters["unaligned_payloads"]
    return res, viol


def _cfgs(tier):
    out = []
    for model in models.MODELS:
        for w in models.WQ:
            for a in (None, "qint8", "qfloat8_e4m3fn"):
                for dt in ("float32", "float16", "bfloat16"):
                    out.append({"model": model, "w": w, "a": a, "dt": dt})
    # depth ladder: a few fixed long histories per configuration (many successive save/load cycles through all serializers/targets)
    for model in ("mlp", "ln", "conv", "wide"):
        for w in ("qint8", "qfloat8_e4m3fn", "qint4"):
            for a in (None, "qint8"):
                out.append({"model": model, "w": w, "a": a, "dt": "float32", "long": 24 if tier == "quick" else 80})
    # size ladder: large layers (block-wise readers/writers, kernels chosen by size or alignment), shallow histories
    for model in ("big_lin", "big_pair", "big_k25", "big_k27"):
        for w in ("qint8", "qint4") if not model.startswith("big_k") else ("qint8",):
            for a, dt in ((None, "float32"), ("qint8", "float32")) + ((("qint8", "float16"), (None, "bfloat16")) if tier == "thorough" else ()):
                if model.startswith("big_k") and a is None:
                    continue
                out.append({"model": model, "w": w, "a": a, "dt": dt, "depth": 3 if model.startswith("big_k") else 2})
    return out


def plan(tier, seed):
    return [{"cfg": c, "tier": tier} for c in _cfgs(tier)]


def run_task(task):
    res, viol = _explore(task["cfg"], task["tier"])
    seen = {}
    for v in viol:
        seen.setdefault(str(sorted(v["fields"].items())), v)
    out = {"evals": res["transitions"], "nontrivial": res["cycles"], "points": res["states"], "calls": res["transitions"], "violations": list(seen.values())[:40], "nviol": len(viol),
           "counters": {"frontier_emptied": int(res["frontier_emptied"]), "unexpanded": res["unexpanded"], "unaligned_payloads": res["unaligned_payloads"], "long_paths": res.get("long_paths", 0), "long_steps": res.get("long_steps", 0)}, "samples": []}
    if task["cfg"] == {"model": "wide", "w": "qint4", "a": "qint8", "dt": "float16"}:
        out["samples"] = [{"config": task["cfg"], "history": h} for h in res["samples"]] or [{"config": task["cfg"], "history": ["freeze", "cycle:safetensors:requantize"]}]
    return out


def crash_violation(task, info):
    return [violation(PID, {"cfg": task["cfg"], "tier": task["tier"], "history": [], "event": None}, {"sub": "worker_crash", "model": task["cfg"]["model"]}, f"worker_crash: signal {info.get('signal')} at {info.get('journal')}")]


def replay_task(case):
    if case.get("event") is None:
        return _explore(case["cfg"], case["tier"])[1]
    on_transition, viol = _explore(case["cfg"], case["tier"], only="direct")
    st = St(case["cfg"])
    for ev in case["history"]:
        st = _apply(st, ev)
    on_transition(list(case["history"]), case["event"], st)
    return viol


def coverage(agg, tier, tasks):
    from ..pool import HarnessError

    if agg.nontrivial == 0:
        raise HarnessError("vacuity guard: no save/load cycle executed")
    if agg.counters.get("unaligned_payloads", 0) == 0:
        raise HarnessError("vacuity guard: no loaded payload was unaligned (safetensors mmap offsets), alignment-dependent kernels not exercised")
    return {
        "rule": RULE,
        "states": agg.points,
        "transitions": agg.calls,
        "traces_validated_against_impl": agg.calls,
        "configurations": len(tasks),
        "configs_whose_state_space_saturated": agg.counters.get("frontier_emptied", 0),
        "unexpanded_frontier_states": agg.counters.get("unexpanded", 0),
        "depth": 3 if tier == "quick" else 4,
        "depth_ladder": {"fixed_long_paths": agg.counters.get("long_paths", 0), "steps": agg.counters.get("long_steps", 0), "length": 24 if tier == "quick" else 80},
        "loaded_payloads_not_16_byte_aligned": agg.counters.get("unaligned_payloads", 0),
        "exhaustive": True,
    }
