"""C07 - quantized matmul/linear kernels compute scale-corrected products on every path (E1)."""
import itertools

import torch
import torch.nn.functional as F

from .. import num, wq
from ..pool import journal
from ..report import violation

PID = "C07"
LEVEL = "model_checking"
RULE = (
    "full product of activation {float,qint8,e4m3,e5m2} x weight {qint8 per-axis, qint8 per-tensor, e4m3, e5m2, qint4, qint2 (ungrouped and grouped 32/64/128)} x dtype "
    "{f32,f16,bf16} x rows x in_features x out_features x batch layout {1-D, 2-D, 3-D, non-contiguous 3-D, expanded} x bias x operand family {exact small integers with a "
    "different power-of-two scale per output row (bit-exact oracle), saturating codes, one-hot rows/columns, generic magnitudes (forward error bound)} through F.linear; "
    "mm/matmul/bmm of two quantized operands; torch.ops.quanto.qbytes_mm and the CPU/CUDA/MPS route selectors and the three kernel wrappers called directly on CPU tensors "
    "(both sides of every size threshold). Non-trivial = configurations with in_features>=2 and a non-zero expected output."
)
ASSUMPTIONS = [
    "exact families: all products/sums are exactly representable in float32, so the expected output is fl(fl(exact)+bias) bit for bit",
    "generic family: |out - ref| <= (K*2^-24 + 4u)*(|x|.|w| + |b|) + 2u|ref| (u = unit round-off of the activation dtype; accumulation in float32)",
    "CUDA/MPS kernels themselves cannot run; only their Python route selectors are exercised on CPU tensors",
    "quick tier: rows {1,8,16,17,24}, in {1,2,4,5,8,16,32,33,64}, out {1,8,9}; thorough: rows 1..64 (11 values), in 1..512 (17 values), out {1,3,8,9,32,33}",
]

ACTS = ["float", "qint8", "qfloat8_e4m3fn", "qfloat8_e5m2"]
FAMILIES = ["exact", "saturating", "onehot", "generic", "large"]
_counts = {}


def _count(name, fn):
    def w(*a, **k):
        _counts[name] = _counts.get(name, 0) + 1
        return fn(*a, **k)

    w.__wrapped__ = fn
    return w


_installed = False


def _install_counters():
    global _installed
    if _installed:
        return
    import optimum.quanto.library.qbytes_mm as mod

    for n in ("qbytes_mm", "qbytes_int_mm", "qbytes_int8pack_mm"):
        setattr(mod, n, _count("route_" + n, getattr(mod, n)))
    torch._int_mm = _count("torch_int_mm", torch._int_mm)
    torch._weight_int8pack_mm = _count("torch_int8pack_mm", torch._weight_int8pack_mm)
    _installed = True


def _sizes(tier):
    if tier == "quick":
        return [1, 8, 16, 17, 24], [1, 2, 4, 5, 8, 16, 32, 33, 64], [1, 8, 9]
    return [1, 2, 7, 8, 15, 16, 17, 24, 32, 33, 64], [1, 2, 3, 4, 5, 8, 12, 16, 31, 32, 33, 48, 64, 96, 128, 256, 512], [1, 3, 8, 9, 32, 33]


def _wkinds(K):
    ks = ["qint8", "qint8_pt", "qint8_axm1", "qfloat8_e4m3fn", "qfloat8_e5m2", "qint4", "qint2"]
    for g in (32, 64, 128):
        if K % g == 0 and K > g:
            ks.append(f"qint4_g{g}")
            ks.append(f"qint2_g{g}")
    return ks


def plan(tier, seed):
    rows, ins, outs = _sizes(tier)
    tasks = []
    for dt in ("float32", "float16", "bfloat16"):
        for K in ins:
            for N in outs:
                tasks.append({"kind": "linear", "dt": dt, "K": K, "N": N, "tier": tier, "seed": seed})
        for K in ins:
            tasks.append({"kind": "direct", "dt": dt, "K": K, "tier": tier, "seed": seed})
        tasks.append({"kind": "matmul", "dt": dt, "tier": tier, "seed": seed})
        for ci in range(len(_large_cfgs(tier))):
            tasks.append({"kind": "large", "dt": dt, "cfg": ci, "tier": tier, "seed": seed})
    return tasks


def _large_cfgs(tier):
    """Size ladder far beyond the exhaustive bound: weights/outputs of 2^18 .. 2^22+ elements with non power-of-two dimensions."""
    cfgs = [("lin", 4, 1152, 3700), ("lin", 128, 264, 2056), ("lin", 3, 2048, 2056), ("mm", 256, 256, 256), ("repeat", 48 if tier == "quick" else 300, 32, 9),
            ("lin", 4101, 40, 9), ("live", 160 if tier == "quick" else 600, 16, 5)]
    if tier == "thorough":
        cfgs += [("lin", 2, 4224, 1000), ("lin", 520, 520, 520), ("lin", 1, 1024, 4100), ("mm", 264, 248, 272), ("mm", 1032, 16, 1040)]
    return cfgs


# ---------------------------------------------------------------------------------------
# operand construction (codes and scales are chosen, tensors are built directly from them)
# ---------------------------------------------------------------------------------------
def _pattern(n, lo, hi, phase):
    """deterministic integer pattern in [lo,hi]"""
    i = torch.arange(n, dtype=torch.int64)
    return lo + ((i * 7 + phase * 3 + (i // 5)) % (hi - lo + 1))


def _act(kind, shape, dt, family, phase):
    """Returns (operand for the library, float64 dequantized values, codes tensor or None, scale or None)."""
    from optimum.quanto import QBytesTensor

    n = 1
    for d in shape:
        n *= d
    K = shape[-1]
    if family == "exact":
        codes = _pattern(n, -4, 4, phase).reshape(shape)
        scale = 0.25
    elif family == "saturating":
        qm = {"float": 127, "qint8": 127, "qfloat8_e4m3fn": 448, "qfloat8_e5m2": 57344}[kind]
        sel = _pattern(n, 0, 3, phase).reshape(shape)
        codes = torch.where(sel == 0, qm, torch.where(sel == 1, -qm, torch.where(sel == 2, 1, 0)))
        if kind == "qint8":
            codes = torch.where(sel == 1, -128, codes)
        scale = 2.0**-10 if kind != "qfloat8_e5m2" else 2.0**-16
    elif family == "onehot":
        codes = torch.zeros(shape, dtype=torch.int64)
        flat = codes.view(-1, K)
        for r in range(flat.shape[0]):
            flat[r, (r * 3 + phase) % K] = 1 + (r % 3)
        scale = 0.5
    else:
        codes = None
        scale = None
    if family in ("generic", "large"):
        i = torch.arange(n, dtype=torch.float64).reshape(shape)
        vals = torch.sin(i * 0.37 + phase) * (1.0 + (i % 7) * 0.5)
        if family == "large":
            # large activations (outliers): un-scaled codes times activations overflow float16 unless accumulated in float32
            vals = vals * 600.0
        if kind == "float":
            x = vals.to(dt)
            return x, x.to(torch.float64), None, None
        qm = num.float8.QMAX[kind]
        s = torch.tensor(float(vals.abs().max()) / qm, dtype=torch.float64).to(dt)
        from optimum.quanto import quantize_activation

        q = quantize_activation(vals.to(dt), num.qt(kind), s)
        return q, q.dequantize().to(torch.float64), None, None
    if kind == "float":
        x = (codes.to(torch.float64) * scale).to(dt)
        return x, x.to(torch.float64), None, None
    qt = num.qt(kind)
    data = codes.to(torch.float32).to(qt.dtype) if qt.is_floating_point else codes.to(torch.int8)
    sc = torch.tensor(scale, dtype=dt)
    q = QBytesTensor(qt, None, data.size(), data.stride(), data, sc)
    v64 = num.decode_codes(data, kind) * sc.to(torch.float64)
    return q, v64, codes, scale


def _weight(wkind, N, K, dt, family, phase):
    """Returns (quantized weight, float64 dequantized (N,K))."""
    from optimum.quanto import QBitsTensor, QBytesTensor, quantize_weight

    if wkind == "qint8_axm1":
        # 8-bit weight quantized along its last axis (one scale per input feature), e.g. a transposed weight
        q0, w0 = _weight("qint8_pt", N, K, dt, family if family not in ("generic", "large") else "exact", phase)
        if K == 1:
            return q0, w0
        sc = (2.0 ** ((torch.arange(K) % 4) - 2).to(torch.float64)).to(dt).reshape(1, K)
        q = QBytesTensor(q0.qtype, -1, q0._data.size(), q0._data.stride(), q0._data, sc)
        return q, num.decode_codes(q0._data, "qint8") * sc.to(torch.float64)
    base = wkind.split("_g")[0].replace("_pt", "")
    gs = int(wkind.split("_g")[1]) if "_g" in wkind else None
    pt = wkind.endswith("_pt")
    qt = num.qt(base)
    if family in ("generic", "large"):
        i = torch.arange(N * K, dtype=torch.float64).reshape(N, K)
        vals = torch.cos(i * 0.23 + phase) * (0.5 + (i // K) * 0.37)  # rows have different ranges
        if family == "large":
            vals = vals * 0.02
        if qt.bits == 8:
            if pt:
                from optimum.quanto import quantize_activation

                s = torch.tensor(float(vals.abs().max()) / 127, dtype=torch.float64).to(dt)
                q = quantize_activation(vals.to(dt), qt, s)
            else:
                q = quantize_weight(vals.to(dt), qt, 0)
        else:
            q = quantize_weight(vals.to(dt), qt, 0, gs)
        return q, q.dequantize().to(torch.float64)
    # exact families: row j has scale 2^(j%5-3): a mis-broadcast of the output scale changes the result
    rowexp = (torch.arange(N) % 5) - 3
    if qt.bits == 8:
        if family == "exact":
            codes = _pattern(N * K, -4, 4, phase + 1).reshape(N, K)
        elif family == "saturating":
            qm = int(num.float8.QMAX[base]) if base != "qint8" else 127
            sel = _pattern(N * K, 0, 2, phase + 1).reshape(N, K)
            codes = torch.where(sel == 0, qm, torch.where(sel == 1, -qm, 2))
            if base == "qint8":
                codes = torch.where(sel == 1, -128, codes)
        else:
            codes = torch.zeros((N, K), dtype=torch.int64)
            for r in range(N):
                codes[r, (r * 5 + phase) % K] = 2 - (r % 4)
                codes[r, (r * 5 + phase + 1) % K] += 1
        data = codes.to(torch.float32).to(qt.dtype) if qt.is_floating_point else codes.to(torch.int8)
        if pt or N == 1:
            sc = torch.tensor(2.0**-3, dtype=dt)
            q = QBytesTensor(qt, None, data.size(), data.stride(), data, sc)
            return q, num.decode_codes(data, base) * sc.to(torch.float64)
        sc = (2.0 ** rowexp.to(torch.float64)).to(dt).reshape(N, 1)
        q = QBytesTensor(qt, 0, data.size(), data.stride(), data, sc)
        return q, num.decode_codes(data, base) * sc.to(torch.float64)
    # packed low-bit weights
    bits = qt.bits
    L = (1 << bits) - 1
    G = 1 if gs is None else K // gs
    gsz = K if gs is None else gs
    if family == "exact":
        codes = _pattern(N * K, 0, L, phase + 2).reshape(N * G, gsz)
    elif family == "saturating":
        codes = torch.where(_pattern(N * K, 0, 1, phase) == 0, 0, L).reshape(N * G, gsz)
    else:
        codes = torch.full((N * G, gsz), (L + 1) // 2, dtype=torch.int64)
        for r in range(N * G):
            codes[r, (r * 3 + phase) % gsz] = L
    zp = ((torch.arange(N * G) % 3) + (L + 1) // 2 - 1).to(torch.int8).reshape(N * G, 1)
    sc = (2.0 ** ((torch.arange(N * G) % 5) - 3).to(torch.float64)).to(dt).reshape(N * G, 1)
    q = QBitsTensor(qt, 0, gs, torch.Size((N, K)), (K, 1), codes.to(torch.uint8), sc, zp)
    w64 = (sc.to(torch.float64) * (codes.to(torch.float64) - zp.to(torch.float64))).reshape(N, K)
    return q, w64


def _layouts(rows, K, tier):
    lays = [("2d", (rows, K))]
    if rows == 1:
        lays.append(("1d", (K,)))
        lays.append(("colvec_t", (K, 1)))  # a (K,1) column transposed to (1,K): contiguous by convention, strides (1,1)
    if rows % 2 == 0 or rows == 1:
        lays.append(("3d", (2, max(1, rows // 2), K)))
        lays.append(("3d_noncontig", (max(1, rows // 2), 2, K)))
    if rows in (8, 16):
        lays.append(("4d", (2, 2, rows // 4, K)))
    if rows >= 2:
        # activations quantized per row (axis 0) / per input feature (axis -1): their scale cannot be handled like a per-tensor one
        lays.append(("peraxis0", (rows, K)))
        lays.append(("peraxis-1", (rows, K)))
    if rows in (8, 17):
        lays.append(("expanded", (1, K)))  # a (1,K) activation expanded to (rows,K): row stride 0
    return lays


def _expected(x64, w64, b, dt, exact, post=None):
    ref = x64 @ w64.t()
    if post is not None:
        ref = ref * post
    if exact:
        e1 = ref.to(dt)
        if b is not None:
            return (e1 + b), ref + b.to(torch.float64)
        return e1, ref
    return None, (ref + b.to(torch.float64) if b is not None else ref)


def _judge(out, x64, w64, b, dt, dtname, exact_ok, K, label, post=None):
    """Returns list of (sub, msg)."""
    res = []
    want_shape = tuple(x64.shape[:-1]) + (w64.shape[0],)
    if not isinstance(out, torch.Tensor) or type(out) is not torch.Tensor:
        return [("type", f"{label}: result is a {type(out).__name__}")]
    if tuple(out.shape) != want_shape:
        return [("shape", f"{label}: output shape {tuple(out.shape)} != {want_shape}")]
    if out.dtype != dt:
        return [("dtype", f"{label}: output dtype {out.dtype} != activation dtype {dt}")]
    exp_bits, ref = _expected(x64, w64, b, dt, exact_ok, post)
    fmax = num.FMAX[dtname]
    representable = ref.abs() <= fmax * (1 - 2.0**-8)
    bad_nf = (~torch.isfinite(out)) & representable
    if bool(bad_nf.any()):
        i = tuple(bad_nf.nonzero()[0].tolist())
        return [("nonfinite", f"{label}: output {float(out[i])} where the reference {float(ref[i])!r} is representable")]
    if exact_ok:
        # numerically identical (+0.0 == -0.0: the sign of an exact zero sum depends on the summation order)
        if not bool((out.to(torch.float64) == exp_bits.to(torch.float64)).all()):
            d = (out.to(torch.float64) - exp_bits.to(torch.float64)).abs()
            i = tuple((d == d.max()).nonzero()[0].tolist())
            res.append(("exact_mismatch", f"{label}: output differs from the exactly computed product: got {float(out[i])!r} want {float(exp_bits[i])!r} at {i}"))
        return res
    u = num.UNIT[dtname]
    S = x64.abs() @ w64.abs().t() * (post.abs() if post is not None else 1.0) + (b.to(torch.float64).abs() if b is not None else 0)
    tol = (K * 2.0**-24 + 4 * u) * S + 2 * u * ref.abs() + 4 * num.QSUB[dtname]
    o64 = out.to(torch.float64)
    bad = ((o64 - ref).abs() > tol) & representable & torch.isfinite(out)
    if bool(bad.any()):
        i = tuple(bad.nonzero()[0].tolist())
        res.append(("accum_mismatch", f"{label}: got {float(o64[i])!r} want {float(ref[i])!r} (tolerance {float(tol[i])!r}) at {i}"))
    return res


def _noncontig(t, layout):
    if layout != "3d_noncontig":
        return t
    return t.transpose(0, 1)


def _linear_task(task, out):
    from optimum.quanto import QBytesTensor

    _install_counters()
    dtname, K, N, tier = task["dt"], task["K"], task["N"], task["tier"]
    dt = num.DTYPES[dtname]
    rows_list, _, _ = _sizes(tier)
    only = task.get("only")
    phase = task.get("seed", 0) % 5
    for wkind in _wkinds(K):
        for family in FAMILIES:
            fam_phase = phase if family in ("generic", "large") else 0
            w, w64 = _weight(wkind, N, K, dt, family, fam_phase)
            for akind in ACTS:
                for rows in rows_list:
                    for layout, shape in _layouts(rows, K, tier):
                        for bias in (False, True):
                            c = [wkind, family, akind, rows, layout, bias]
                            if only and only != c:
                                continue
                            if layout.startswith("peraxis") and (akind == "float" or family not in ("exact", "onehot")):
                                continue
                            x, x64, _, _ = _act(akind, shape, dt, family, fam_phase)
                            if layout.startswith("peraxis"):
                                x, x64n = _peraxis(x, int(layout[7:]))
                                if x64n is None:
                                    continue
                                x64 = x64n
                            if layout == "expanded":
                                if isinstance(x, QBytesTensor):
                                    d = x._data.expand(rows, K)
                                    x = QBytesTensor(x.qtype, None, d.size(), d.stride(), d, x._scale)
                                else:
                                    x = x.expand(rows, K)
                                x64 = x64.expand(rows, K)
                            if layout == "colvec_t":
                                if isinstance(x, QBytesTensor):
                                    d = x._data.t()
                                    x = QBytesTensor(x.qtype, None, d.size(), d.stride(), d, x._scale)
                                else:
                                    x = x.t()
                                x64 = x64.t()
                            if layout == "3d_noncontig":
                                # build the operand with swapped leading dims, then view it transposed (non-contiguous)
                                if isinstance(x, QBytesTensor):
                                    d = x._data.transpose(0, 1)
                                    x = QBytesTensor(x.qtype, None, d.size(), d.stride(), d, x._scale)
                                else:
                                    x = x.transpose(0, 1)
                                x64 = x64.transpose(0, 1)
                            b = None
                            if bias:
                                b = ((torch.arange(N, dtype=torch.float64) % 7 - 3) / 4).to(dt)
                            exact_ok = family in ("exact", "onehot") or (family == "saturating" and akind in ("float", "qint8") and wkind.startswith(("qint8", "qint4", "qint2")))
                            fields = {"kind": "linear", "act": akind, "weight": wkind.split("_g")[0], "grouped": "_g" in wkind, "dtype": dtname, "family": family, "layout": layout, "bias": bias}
                            case = dict(task, only=c)
                            journal(repr(case))
                            out["evals"] += 1
                            out["calls"] += 1
                            out["points"] += 1
                            if K >= 2:
                                out["nontrivial"] += 1
                            try:
                                with torch.no_grad():
                                    y = F.linear(x, w, b)
                            except Exception as e:  # noqa
                                out["violations"].append(violation(PID, case, dict(fields, sub="raised"), f"raised: F.linear {c} K={K} N={N} {dtname}: {type(e).__name__}: {str(e)[:200]}"))
                                continue
                            for sub, msg in _judge(y, x64, w64, b, dt, dtname, exact_ok, K, f"F.linear {c} K={K} N={N} {dtname}"):
                                out["violations"].append(violation(PID, case, dict(fields, sub=sub), f"{sub}: {msg}"))


_SEL_CACHE = {}


def _selector_functions(mod):
    """torch.library.impl() returns None, so the decorated route selectors are not reachable as attributes. Re-create the
    function objects from the module source of the tree under test (bodies unmodified, decorators dropped); their globals
    are the module's own globals, so they call the (counted) kernel wrappers exactly like the registered implementations."""
    import ast
    import inspect
    import types

    if _SEL_CACHE:
        return _SEL_CACHE
    src = inspect.getsource(mod)
    tree = ast.parse(src)
    for node in tree.body:
        if isinstance(node, ast.FunctionDef) and node.name.startswith("qbytes_mm_impl_"):
            node.decorator_list = []
            code = compile(ast.Module(body=[node], type_ignores=[]), mod.__file__, "exec")
            ns = {}
            exec(code, mod.__dict__, ns)
            _SEL_CACHE[node.name] = types.FunctionType(ns[node.name].__code__, mod.__dict__, node.name)
    for n in ("qbytes_mm_impl_cpu", "qbytes_mm_impl_cuda", "qbytes_mm_impl_mps"):
        if n not in _SEL_CACHE:
            raise RuntimeError(f"route selector {n} not found in {mod.__file__}")
    return _SEL_CACHE


def _direct_task(task, out):
    """torch.ops.quanto.qbytes_mm, the three route selectors and the three kernel wrappers, called directly."""
    import optimum.quanto.library.qbytes_mm as mod

    _install_counters()
    dtname, K, tier = task["dt"], task["K"], task["tier"]
    dt = num.DTYPES[dtname]
    rows_list, _, outs = _sizes(tier)
    only = task.get("only")
    sel_fns = _selector_functions(mod)
    selectors = {
        "op": lambda a, w, s: torch.ops.quanto.qbytes_mm(a, w, s),
        "cpu": sel_fns["qbytes_mm_impl_cpu"],
        "cuda": sel_fns["qbytes_mm_impl_cuda"],
        "mps": sel_fns["qbytes_mm_impl_mps"],
        "k_mm": lambda a, w, s: mod.qbytes_mm(a, w, s),
        "k_int_mm": lambda a, w, s: mod.qbytes_int_mm(a, w, s),
        "k_int8pack": lambda a, w, s: mod.qbytes_int8pack_mm(a, w, s),
    }
    _unaligned_reuse(task, out)
    for N in outs + ([32] if tier == "quick" else []):
        for wkind in ("qint8", "qfloat8_e4m3fn", "qfloat8_e5m2"):
            for family in ("exact", "onehot", "generic"):
                w, w64 = _weight(wkind, N, K, dt, family, 0)
                for akind in ACTS:
                    for rows in rows_list:
                        for layout, shape in (("2d", (rows, K)), ("3d", (2, rows, K))):
                            x, x64, _, _ = _act(akind, shape, dt, family, 0)
                            a_data = x if akind == "float" else x._data
                            sc = w._scale if akind == "float" else (x._scale * w._scale)
                            # direct calls: the reference is (codes . codes^T) * the output scales that are handed to the kernel
                            xc64 = x64 if akind == "float" else num.decode_codes(x._data, akind)
                            wc64 = num.decode_codes(w._data, wkind)
                            post = sc.to(torch.float64).flatten()
                            for sel, fn in selectors.items():
                                c = [N, wkind, family, akind, rows, layout, sel]
                                if only and only != c:
                                    continue
                                # kernel wrappers have a restricted domain
                                if sel == "k_int_mm" and not (akind == "qint8" and wkind == "qint8" and K > 1):
                                    continue
                                if sel == "k_int8pack" and not (akind == "float" and dt == torch.bfloat16 and wkind == "qint8" and K % 16 == 0):
                                    continue
                                fields = {"kind": "direct", "selector": sel, "act": akind, "weight": wkind, "dtype": dtname, "family": family}
                                case = dict(task, only=c)
                                journal(repr(case))
                                out["evals"] += 1
                                out["calls"] += 1
                                out["points"] += 1
                                if K >= 2:
                                    out["nontrivial"] += 1
                                try:
                                    with torch.no_grad():
                                        y = fn(a_data, w._data, sc)
                                except Exception as e:  # noqa
                                    out["violations"].append(violation(PID, case, dict(fields, sub="raised"), f"raised: selector {sel} {c} K={K} {dtname}: {type(e).__name__}: {str(e)[:200]}"))
                                    continue
                                exact_ok = family in ("exact", "onehot")
                                for sub, msg in _judge(y, xc64, wc64, None, dt, dtname, exact_ok, K, f"{sel} {c} K={K} {dtname}", post=post):
                                    out["violations"].append(violation(PID, case, dict(fields, sub=sub), f"{sub}: {msg}"))


def _peraxis(q, axis):
    """Per-axis variant of a per-tensor 2-D quantized tensor: same codes, a different power-of-two scale per index of `axis`."""
    from optimum.quanto import QBytesTensor

    n = q.shape[axis]
    if n == 1:
        return q, None
    sc = (2.0 ** ((torch.arange(n) % 4) - 2).to(torch.float64)).to(q.dtype).reshape((n, 1) if axis == 0 else (1, n))
    out = QBytesTensor(q.qtype, axis, q._data.size(), q._data.stride(), q._data, sc)
    return out, num.decode_codes(q._data, q.qtype.name) * sc.to(torch.float64)


def _unaligned_reuse(task, out):
    """int8-packed route: weights living in an unaligned buffer (as after safe_load) whose content is replaced in place between
    two calls; every call must use the current content."""
    import optimum.quanto.library.qbytes_mm as mod

    if task["dt"] != "bfloat16" or task["K"] % 16 != 0:
        return
    K = task["K"]
    for N in (1, 8, 12):
        for off in (3, 8):
            buf = torch.zeros(N * K + 64, dtype=torch.int8)
            start = (16 - (buf.data_ptr() % 16)) % 16 + off
            w = buf[start:start + N * K].view(N, K)
            assert w.data_ptr() % 16 != 0
            x, x64, _, _ = _act("float", (4, K), torch.bfloat16, "exact", 0)
            sc = (2.0 ** ((torch.arange(N) % 5) - 3).to(torch.float64)).to(torch.bfloat16).reshape(N, 1)
            for step in range(3):
                codes = _pattern(N * K, -4, 4, step * 11 + 1).reshape(N, K)
                w.copy_(codes.to(torch.int8))
                c = ["unaligned_reuse", N, off, step]
                if task.get("only") and task["only"] != c:
                    continue
                fields = {"kind": "direct", "selector": "unaligned_reuse", "act": "float", "weight": "qint8", "dtype": "bfloat16", "family": "exact"}
                case = dict(task, only=c)
                journal(repr(case))
                out["evals"] += 1
                out["calls"] += 1
                out["points"] += 1
                out["nontrivial"] += 1
                try:
                    y = torch.ops.quanto.qbytes_mm(x, w, sc)
                except Exception as e:  # noqa
                    out["violations"].append(violation(PID, case, dict(fields, sub="raised"), f"raised: qbytes_mm with unaligned weights {c}: {type(e).__name__}: {str(e)[:160]}"))
                    continue
                for sub, msg in _judge(y, x64, codes.to(torch.float64), None, torch.bfloat16, "bfloat16", True, K, f"unaligned_reuse {c} K={K}", post=sc.to(torch.float64).flatten()):
                    out["violations"].append(violation(PID, case, dict(fields, sub=sub), f"{sub}: {msg}"))


def _matmul_task(task, out):
    """torch.mm / matmul / bmm with two quantized operands (aten.mm integer branch needs n>16 and multiples of 8)."""
    from optimum.quanto import QBytesTensor

    _install_counters()
    dtname, tier = task["dt"], task["tier"]
    dt = num.DTYPES[dtname]
    only = task.get("only")
    ns = [1, 8, 16, 17, 24, 32] if tier == "quick" else [1, 2, 8, 15, 16, 17, 24, 32, 33, 40]
    ms = [1, 7, 8, 16] if tier == "quick" else [1, 2, 7, 8, 12, 16, 24, 33]
    ps = [1, 8, 9] if tier == "quick" else [1, 3, 8, 9, 16]
    if only is None or only[0] == "qbits_axm1":
        _qbits_operand_cases(task, out)
    for n, m, p in itertools.product(ns, ms, ps):
        for family in ("exact", "onehot", "generic"):
            for akind in ("qint8", "qfloat8_e4m3fn", "float", "qint8@0", "qint8@-1"):
                for bkind in ("qint8", "qfloat8_e4m3fn", "float", "qint8@0", "qint8@-1"):
                    if akind == "float" and bkind == "float":
                        continue
                    if "@" in akind + bkind and family == "generic":
                        continue
                    a, a64, _, _ = _act(akind.split("@")[0], (n, m), dt, family, 0)
                    bT, bT64, _, _ = _act(bkind.split("@")[0], (p, m), dt, family, 1)
                    if "@" in akind:
                        a, a64n = _peraxis(a, int(akind.split("@")[1]))
                        if a64n is None:
                            continue
                        a64 = a64n
                    if "@" in bkind:
                        # bT is the (p,m) transpose of the right operand: axis 0 of the operand is axis -1 of bT
                        bT, b64n = _peraxis(bT, -1 if bkind.endswith("@0") else 0)
                        if b64n is None:
                            continue
                        bT64 = b64n
                    # right operand (m,p): transpose of a (p,m) per-tensor tensor, plus a contiguous variant
                    for blay in ("t", "contig"):
                        if isinstance(bT, QBytesTensor):
                            d = bT._data.t() if blay == "t" else bT._data.t().contiguous()
                            bax = None if bT.axis is None else (0 if bT.axis == -1 else -1)
                            bq = QBytesTensor(bT.qtype, bax, d.size(), d.stride(), d, bT._scale if bT.axis is None else bT._scale.t())
                        else:
                            bq = bT.t() if blay == "t" else bT.t().contiguous()
                        for fn_name in ("mm", "matmul", "bmm"):
                            if fn_name == "bmm" and "@" in akind + bkind:
                                continue
                            c = [n, m, p, family, akind, bkind, blay, fn_name]
                            if only and only != c:
                                continue
                            fields = {"kind": "matmul", "fn": fn_name, "act": akind, "other": bkind, "dtype": dtname, "family": family}
                            case = dict(task, only=c)
                            journal(repr(case))
                            out["evals"] += 1
                            out["calls"] += 1
                            out["points"] += 1
                            if m >= 2:
                                out["nontrivial"] += 1
                            try:
                                with torch.no_grad():
                                    if fn_name == "mm":
                                        y = torch.mm(a, bq)
                                        x64 = a64
                                    elif fn_name == "matmul":
                                        y = torch.matmul(a, bq)
                                        x64 = a64
                                    else:
                                        def b3(t):
                                            if isinstance(t, QBytesTensor):
                                                d = t._data.unsqueeze(0).expand(2, *t._data.shape).contiguous()
                                                return QBytesTensor(t.qtype, None, d.size(), d.stride(), d, t._scale)
                                            return t.unsqueeze(0).expand(2, *t.shape).contiguous()
                                        y = torch.bmm(b3(a), b3(bq))
                                        x64 = a64.unsqueeze(0).expand(2, n, m)
                            except Exception as e:  # noqa
                                out["violations"].append(violation(PID, case, dict(fields, sub="raised"), f"raised: torch.{fn_name} {c} {dtname}: {type(e).__name__}: {str(e)[:200]}"))
                                continue
                            exact_ok = family in ("exact", "onehot")
                            for sub, msg in _judge(y, x64, bT64, None, dt, dtname, exact_ok, m, f"torch.{fn_name} {c} {dtname}"):
                                out["violations"].append(violation(PID, case, dict(fields, sub=sub), f"{sub}: {msg}"))


def _qbits_operand_cases(task, out):
    """torch.mm / matmul with an int4 / int2 right operand quantized group-wise along its *last* axis (one scale per output
    column and group of rows), non-square.  The float operand is built group by group (qmc/wq.fill) from scale_k x (code - zp_k) with
    power-of-two scales and every group holding the codes 0 and 2^bits-1, so that the library's quantization is exact and the oracle
    - the exactly computed product with the *original* float matrix - does not pass through the library's own ungrouping."""
    from optimum.quanto import quantize_weight

    from .. import wq

    dtname = task["dt"]
    dt = num.DTYPES[dtname]
    only = task.get("only")
    for wname in ("qint4", "qint2"):
        qt = num.qt(wname)
        L = (1 << qt.bits) - 1
        for m, p, gs in ((16, 8, 8), (32, 24, 16), (24, 3, 8), (64, 32, 16), (8, 17, None), (48, 16, 16), (16, 48, 4)):
            gid, pos, ng, gsz = wq.group_ids((m, p), -1, gs)
            k = torch.arange(ng, dtype=torch.float64).reshape(ng, 1)
            j = torch.arange(gsz, dtype=torch.float64).reshape(1, gsz)
            codes = (j * 7 + k * 3) % (L + 1)
            codes[:, 0] = 0
            codes[:, 1] = L
            zp = (k % 3) + (L + 1) // 2 - 1
            sc = 2.0 ** ((k % 4) - 3)
            w64 = wq.fill((m, p), -1, gs, sc * (codes - zp), torch.float64)
            for n in (1, 3, 17):
                for akind in ("float", "qint8"):
                    for fn_name in ("mm", "matmul"):
                        c = ["qbits_axm1", wname, m, p, gs, n, akind, fn_name]
                        if only and only != c:
                            continue
                        fields = {"kind": "matmul", "fn": fn_name, "act": akind, "other": f"{wname}@-1g", "dtype": dtname, "family": "exact"}
                        case = dict(task, only=c)
                        journal(repr(case))
                        out["evals"] += 1
                        out["calls"] += 1
                        out["points"] += 1
                        out["nontrivial"] += 1
                        try:
                            a, a64, _, _ = _act(akind, (n, m), dt, "exact", 0)
                            qw = quantize_weight(w64.to(dt), qt, -1, gs)
                            with torch.no_grad():
                                y = torch.mm(a, qw) if fn_name == "mm" else torch.matmul(a, qw)
                        except Exception as e:  # noqa
                            out["violations"].append(violation(PID, case, dict(fields, sub="raised"), f"raised: torch.{fn_name} {c} {dtname}: {type(e).__name__}: {str(e)[:200]}"))
                            continue
                        for sub, msg in _judge(y, a64, w64.t().contiguous(), None, dt, dtname, True, m, f"torch.{fn_name} {c} {dtname}"):
                            out["violations"].append(violation(PID, case, dict(fields, sub=sub), f"{sub}: {msg}"))


def _large_task(task, out):
    """Large operands (tiling / chunking / workspace code paths): every result of a group of calls is kept and judged only after
    the whole group ran, so a result living in a shared buffer that a later call overwrites is seen."""
    from optimum.quanto import QBytesTensor

    _install_counters()
    dtname, tier = task["dt"], task["tier"]
    dt = num.DTYPES[dtname]
    only = task.get("only")
    what, n, K, N = _large_cfgs(tier)[task["cfg"]]
    pending = []  # (case, fields, label, y, x64, w64, b, exact_ok, K)

    def call(c, fields, label, thunk, x64, w64, b, exact_ok, kk):
        case = dict(task, only=c)
        journal(repr(case))
        out["evals"] += 1
        out["calls"] += 1
        out["points"] += 1
        out["nontrivial"] += 1
        try:
            num.poison(4 * x64.numel() // x64.shape[-1] * w64.shape[0], w64.numel() * 4, w64.numel())
            with torch.no_grad():
                y = thunk()
        except Exception as e:  # noqa
            out["violations"].append(violation(PID, case, dict(fields, sub="raised"), f"raised: {label}: {type(e).__name__}: {str(e)[:200]}"))
            return
        pending.append((case, fields, label, y, x64, w64, b, exact_ok, kk))

    def flush():
        for case, fields, label, y, x64, w64, b, exact_ok, kk in pending:
            for sub, msg in _judge(y, x64, w64, b, dt, dtname, exact_ok, kk, label):
                out["violations"].append(violation(PID, case, dict(fields, sub=sub), f"{sub}: {msg}"))
        pending.clear()

    if what == "live":
        # many live objects: n layers, each with its own weight / scales, all kept alive and evaluated in several passes (caches
        # keyed on object identity or slot tables that wrap must not hand one layer the data of another)
        from optimum.quanto import quantize_weight

        layers = []
        for i in range(n):
            codes = _pattern(N * K, -4, 4, i).reshape(N, K)
            sc = (2.0 ** (((torch.arange(N) + i) % 5) - 3).to(torch.float64)).to(dt).reshape(N, 1)
            data = codes.to(torch.int8)
            w_c = QBytesTensor(num.qt("qint8"), 0, data.size(), data.stride(), data, sc)
            # the same kind of weight held non-contiguously (quantized from a transposed matrix)
            dt_ = codes.t().contiguous().to(torch.int8).t()
            w_t = QBytesTensor(num.qt("qint8"), 0, dt_.size(), dt_.stride(), dt_, sc.clone())
            xq, xq64, _, _ = _act("qint8", (2, K), dt, "exact", i)
            xq = QBytesTensor(xq.qtype, None, xq._data.size(), xq._data.stride(), xq._data, (xq._scale * (1 + i % 3)).to(dt))
            xq64 = num.decode_codes(xq._data, "qint8") * xq._scale.to(torch.float64)
            xf, xf64, _, _ = _act("float", (2, K), dt, "exact", i)
            layers.append((i, w_c, w_t, codes.to(torch.float64) * sc.to(torch.float64), xq, xq64, xf, xf64))
        for ps in range(3):
            for i, w_c, w_t, w64, xq, xq64, xf, xf64 in layers:
                for wname, w in (("contig", w_c), ("noncontig", w_t)):
                    for aname, x, x64 in (("qint8", xq, xq64), ("float", xf, xf64)):
                        c = [ps, i, wname, aname]
                        if only and only != c:
                            continue
                        fields = {"kind": "large", "act": aname, "weight": "qint8", "grouped": False, "dtype": dtname, "family": "exact", "bias": False, "live": True}
                        call(c, fields, f"F.linear pass {ps + 1} layer {i + 1} of {n} live layers ({wname} weight, {aname} activations) {dtname}", lambda x=x, w=w: F.linear(x, w), x64, w64, None, True, K)
            flush()
        return
    if what == "repeat":
        # repetition ladder: many same-shaped calls, every output kept and judged only after the last call
        for wkind in ("qint8", "qfloat8_e4m3fn", "qint4"):
            w, w64 = _weight(wkind, N, K, dt, "exact", 0)
            for akind in ("float", "qint8", "qfloat8_e4m3fn"):
                if only and only[:2] != [wkind, akind]:
                    continue
                for rep in range(n):
                    x, x64, _, _ = _act(akind, (3, K), dt, "exact", rep)
                    c = [wkind, akind, rep]
                    fields = {"kind": "large", "act": akind, "weight": wkind, "grouped": False, "dtype": dtname, "family": "exact", "bias": False, "repeat": True}
                    call(c, fields, f"F.linear call #{rep + 1} of {n} same-shaped calls {c} K={K} N={N} {dtname}", lambda x=x, w=w: F.linear(x, w), x64, w64, None, True, K)
                if only:
                    pending[:] = [p for p in pending if p[0]["only"] == only]
                flush()
        return
    if what == "lin":
        wkinds = ["qint8", "qfloat8_e4m3fn", "qint8_pt"] + (["qint4_g128"] if K % 128 == 0 else ["qint4"])
        for wkind in wkinds:
            for family in ("exact", "large"):
                if only and only[:2] != [wkind, family]:
                    continue
                w, w64 = _weight(wkind, N, K, dt, family, 0)
                for akind in ("float", "qint8", "qfloat8_e4m3fn"):
                    for bias in (False, True):
                        for rep in range(2):
                            c = [wkind, family, akind, bias, rep]
                            x, x64, _, _ = _act(akind, (n, K), dt, family, rep)
                            b = ((torch.arange(N, dtype=torch.float64) % 7 - 3) / 4).to(dt) if bias else None
                            fields = {"kind": "large", "act": akind, "weight": wkind.split("_g")[0], "grouped": "_g" in wkind, "dtype": dtname, "family": family, "bias": bias}
                            call(c, fields, f"F.linear large {c} rows={n} K={K} N={N} {dtname}", lambda x=x, w=w, b=b: F.linear(x, w, b), x64, w64, b, family == "exact", K)
                    if not only:
                        flush()
                if only:
                    pending[:] = [p for p in pending if p[0]["only"] == only]
                    flush()
    else:
        m, p = K, N
        for akind in ("qint8", "qint8@0", "qint8@-1", "float"):
            for bkind in ("qint8", "qint8@0", "qint8@-1", "qfloat8_e4m3fn"):
                a, a64, _, _ = _act(akind.split("@")[0], (n, m), dt, "exact", 0)
                bT, bT64, _, _ = _act(bkind.split("@")[0], (p, m), dt, "exact", 1)
                if "@" in akind:
                    a, a64 = _peraxis(a, int(akind.split("@")[1]))
                if "@" in bkind:
                    bT, bT64 = _peraxis(bT, -1 if bkind.endswith("@0") else 0)
                for blay in ("t", "contig"):
                    d = bT._data.t() if blay == "t" else bT._data.t().contiguous()
                    bax = None if bT.axis is None else (0 if bT.axis == -1 else -1)
                    bq = QBytesTensor(bT.qtype, bax, d.size(), d.stride(), d, bT._scale if bT.axis is None else bT._scale.t())
                    for fn_name in ("mm", "matmul"):
                        c = [akind, bkind, blay, fn_name]
                        if only and only != c:
                            continue
                        fields = {"kind": "large", "fn": fn_name, "act": akind, "other": bkind, "dtype": dtname, "family": "exact"}
                        call(c, fields, f"torch.{fn_name} large {c} ({n},{m})x({m},{p}) {dtname}", lambda a=a, bq=bq, f=fn_name: getattr(torch, f)(a, bq), a64, bT64, None, True, m)
                flush()


def _run(task):
    out = {"evals": 0, "nontrivial": 0, "points": 0, "calls": 0, "violations": [], "samples": [], "counters": {}}
    _counts.clear()
    {"linear": _linear_task, "direct": _direct_task, "matmul": _matmul_task, "large": _large_task}[task["kind"]](task, out)
    out["counters"] = dict(_counts)
    out["counters"][task["kind"] + "_cases"] = out["evals"]
    return out


def run_task(task):
    out = _run(task)
    out["nviol"] = len(out["violations"])
    seen = {}
    for v in out["violations"]:
        seen.setdefault(str(sorted(v["fields"].items())), v)
    out["violations"] = list(seen.values())[:80]
    if task["kind"] == "linear" and task["K"] == 16 and task["N"] == 9:
        out["samples"].append({"call": "F.linear", "dtype": task["dt"], "activation": "qint8 per-tensor (17,16) codes in [-4,4] scale 2^-2", "weight": "qint8 per-axis (9,16), row j scale 2^(j%5-3)", "bias": "dyadic", "oracle": "bit-exact"})
    return out


def crash_violation(task, info):
    import ast

    j = info.get("journal")
    try:
        case = ast.literal_eval(j) if j else dict(task)
    except Exception:
        case = dict(task)
    only = case.get("only") or []
    return [violation(PID, case, {"kind": task["kind"], "sub": "worker_crash", "dtype": task.get("dt")},
                      f"worker_crash: worker died with signal {info.get('signal')} while executing {task['kind']} case {only} K={task.get('K')} N={task.get('N')} {task.get('dt')}")]


def replay_task(case):
    return _run(case)["violations"]


def coverage(agg, tier, tasks):
    from ..pool import HarnessError

    c = agg.counters
    for k in ("route_qbytes_mm", "route_qbytes_int_mm", "route_qbytes_int8pack_mm", "torch_int_mm", "torch_int8pack_mm", "linear_cases", "direct_cases", "matmul_cases", "large_cases"):
        if c.get(k, 0) == 0:
            raise HarnessError(f"vacuity guard: {k} == 0 (a kernel route was never exercised)")
    return {
        "rule": RULE,
        "states": agg.points,
        "transitions": agg.calls,
        "traces_validated_against_impl": agg.calls,
        "exhaustive": True,
        "counters": dict(sorted(c.items())),
    }
