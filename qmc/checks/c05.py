"""C05 - operations on quantized tensors equal the same operations on dequantized values (E2)."""
from .. import texp

PID = "C05"
LEVEL = "model_checking"
ASSUMPTIONS = [
    "bound: programs up to the stated depth over the event alphabet of qmc/texp.py, rank<=4, numel<=64, 12 initial tensors; values are position-tagged and include saturating codes",
    "canonical key = (class, qtype, axis, size, stride, payload size/stride, scale shape, dtype, device, group size, scale-is-initial flag): every branch of the dispatch code tests only these fields",
    "float twin = dequantized values under the wrapper's size and stride; when the float program raises nothing is required",
    "comparators: exact (data movement, element-wise pass-through), 3u (rescaling, dtype moves), one output step (softmax, where, copy_ of plain into quantized), (K+4)u*K*max|a|max|b| (contractions)",
]
expand_task = texp.expand_task
ladder_task = texp.ladder_task


def main(ctx):
    depth = 3 if ctx.tier == "quick" else 4
    agg, cov = texp.bfs(ctx, "c05", depth, ctx.tier, PID)
    cov["rule"] = ("breadth-first search over programs of intercepted / pass-through tensor operations from 12 initial quantized tensors; each transition executes the real "
                   "operation and the same operation on float twins; de-duplication on a canonical metadata key; non-trivial transitions = those whose float program is valid")
    return agg, cov


def replay_task(case):
    return texp.replay_case(case, "c05")
