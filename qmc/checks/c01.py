"""C01 - 8-bit symmetric quantization is a nearest-grid-point projection.

E1: complete enumeration of the (value, scale) plane for float16 / bfloat16 (every finite value x
scale set; thorough tier: every positive finite scale), a dense lattice + boundary set for float32,
and all small shapes/layouts; judged element-wise by exact float64 arithmetic on hand-decoded grids.
"""
import itertools

import torch

from .. import num
from ..report import violation

PID = "C01"
LEVEL = "model_checking"
RULE = (
    "half precision: every finite bit pattern of float16 (63488) and bfloat16 (65280) x scale set x {qint8,e4m3fn,e5m2} "
    "through SymmetricQuantizer.apply axis=0 (scales as rows), axis=-1 (transposed) and quantize_activation (per-tensor); "
    "float32: lattice of all finite values with 13 low mantissa bits zero (2^19) + boundary set (every grid point, every "
    "mid-point, end points, +-2 ulp, 0, min subnormal, max) x scales 2^k x {1,4/3,2-ulp}; layouts: all shapes rank 1..4 "
    "dims {1,2,3} x {contiguous,permuted,step-2 slice,expanded} x axis {None,0,-1}. A (value,scale,qtype,dtype) point is "
    "non-trivial when the value is off-grid and in range, or saturates, or is an exact tie between two grid points."
)
ASSUMPTIONS = [
    "float64 arithmetic of torch (add/mul/abs/searchsorted) is trusted for the oracle; all products scale*gridpoint are exact in float64",
    "float32 is covered on the stated lattice + boundary sets only (cannot be exhausted)",
    "tolerance of the nearest-point oracle: 3u|x| + 2*scale*min_subnormal (u = unit round-off of the source dtype), derived from one rounding of x/scale",
    "quick tier uses ~110 (float16) / ~250 (bfloat16) scales; the thorough tier covers every positive finite scale",
]


def _half_scales_quick(dtname):
    """Scale bit patterns: three mantissas per binade + specials."""
    dt = num.DTYPES[dtname]
    pats = set()
    if dtname == "float16":
        mant_bits, exps = 10, list(range(0, 31))
    else:
        mant_bits, exps = 7, [e for e in range(0, 255) if e % 4 == 3 or e < 3 or e > 251 or 118 <= e <= 136]
    full = (1 << mant_bits) - 1
    for e in exps:
        for m in (0, 1 << (mant_bits - 1), full):
            p = (e << mant_bits) | m
            if p != 0:
                pats.add(p)
    pats.add(1)  # min subnormal
    for qmax in (127.0, 448.0, 57344.0):
        for k in (1.0, 3.0, 0.01):
            v = torch.tensor(k / qmax, dtype=torch.float64).to(dt)
            if torch.isfinite(v) and v > 0:
                pats.add(int(v.view(torch.int16)) & 0xFFFF)
    out = sorted(pats)
    t = torch.tensor(out, dtype=torch.int32).to(torch.int16).view(dt)
    assert bool(torch.isfinite(t).all() and (t > 0).all())
    return t


def _half_scales(dtname, tier):
    if tier == "quick":
        return _half_scales_quick(dtname)
    return num.all_positive_finite_half(dtname)


def _f32_scales(tier):
    ks = range(-126, 128) if tier == "thorough" else [k for k in range(-126, 128) if k % 4 == 0 or k in (-126, 127, -1, 1)]
    vals = []
    for k in ks:
        for m in (1.0, 4.0 / 3.0, 2.0 - 2.0**-23):
            v = torch.tensor(m * 2.0**k, dtype=torch.float64).to(torch.float32)
            if torch.isfinite(v) and v > 0:
                vals.append(float(v))
    vals += [2.0**-149, 2.0**-140, 1.0 / 127, 1.0 / 448, 1.0 / 57344, 0.1, 3.0]
    return torch.tensor(sorted(set(vals)), dtype=torch.float32)


_F32_LATTICE = None


def _f32_lattice():
    global _F32_LATTICE
    if _F32_LATTICE is None:
        bits = (torch.arange(0, 1 << 19, dtype=torch.int64) << 13).to(torch.int32)
        v = bits.view(torch.float32)
        _F32_LATTICE = v[torch.isfinite(v)].clone()
    return _F32_LATTICE


def _f32_boundary(s, qname):
    """float32 values around every grid point / mid-point of the grid of scale s."""
    g = num.grid_tensor(qname)
    s64 = torch.tensor(float(s), dtype=torch.float64)
    pts = s64 * g
    mids = (pts[1:] + pts[:-1]) / 2
    c = torch.cat([pts, mids, torch.tensor([0.0, 2.0**-149, -(2.0**-149), num.FMAX["float32"], -num.FMAX["float32"]], dtype=torch.float64)])
    c = c.clamp(-num.FMAX["float32"], num.FMAX["float32"]).to(torch.float32)
    out = [c]
    up, dn = c, c
    inf = torch.tensor(float("inf"))
    for _ in range(2):
        up = torch.nextafter(up, inf)
        dn = torch.nextafter(dn, -inf)
        out += [up, dn]
    v = torch.cat(out)
    return v[torch.isfinite(v)]


def plan(tier, seed):
    tasks = []
    CH = 64
    for dtname in ("float16", "bfloat16"):
        nq = _half_scales_quick(dtname).numel()
        n = _half_scales(dtname, tier).numel()
        for q in num.Q8:
            def chunks(total):
                los = list(range(0, total, CH))
                for lo in los:
                    hi = min(total, lo + CH)
                    if total - hi == 1:
                        hi = total
                    if not (total - lo == 1 and len(los) > 1):
                        yield lo, hi

            for lo, hi in chunks(nq):
                tasks.append({"kind": "half", "dt": dtname, "q": q, "set": "quick", "lo": lo, "hi": hi, "modes": ["axis0", "axism1", "tensor"]})
            if tier == "thorough":
                for lo, hi in chunks(n):
                    tasks.append({"kind": "half", "dt": dtname, "q": q, "set": "all", "lo": lo, "hi": hi, "modes": ["axis0"]})
    ns = _f32_scales(tier).numel()
    for q in num.Q8:
        los = list(range(0, ns, 8))
        for lo in los:
            hi = min(ns, lo + 8)
            if ns - hi == 1:
                hi = ns  # never leave a chunk of a single scale (per-axis quantization needs >= 2 rows)
            if lo < hi and not (lo == los[-1] and ns - lo == 1 and len(los) > 1):
                tasks.append({"kind": "f32", "q": q, "tier": tier, "lo": lo, "hi": hi})
    for q in num.Q8:
        for dtname in ("float32", "float16", "bfloat16"):
            tasks.append({"kind": "layout", "q": q, "dt": dtname})
            # size ladder (more than 2^20 elements, non power-of-two dimensions, every layout) and repetition ladder
            big = [[1025, 1031]] if tier == "quick" else [[1025, 1031], [2049, 2050], [3, 700, 521], [1048583]] + ([[2900, 2901], [4100, 4224]] if dtname == "float32" else [])
            for shp in big:
                tasks.append({"kind": "layout", "q": q, "dt": dtname, "shapes": [shp]})
            tasks.append({"kind": "repeat", "q": q, "dt": dtname, "n": 48 if tier == "quick" else 200, "live": 300 if tier == "quick" else 1200})
    return tasks


# ---------------------------------------------------------------------------------------
def _quantize(x, scale, qname, mode):
    from optimum.quanto import quantize_activation
    from optimum.quanto.tensor.quantizers import SymmetricQuantizer

    qt = num.qt(qname)
    if mode == "tensor":
        return quantize_activation(x, qt, scale)
    axis = {"axis0": 0, "axism1": -1, "none": None}[mode]
    return SymmetricQuantizer.apply(x, qt, axis, scale)


def judge(x, scale, q, dtname, qname, mode, want_idem=True, qtype_names=None):
    """Element-wise oracle. x: source tensor; scale: tensor broadcastable to x; q: library result.

    Returns (list of (sub, mask, extra_fields)), stats dict.
    """
    out = []
    stats = {}
    from optimum.quanto import QBytesTensor

    if not isinstance(q, QBytesTensor) or tuple(q.shape) != tuple(x.shape) or q.dtype != x.dtype or q._data.shape != x.shape:
        out.append(("meta", None, {"msg": f"result {type(q).__name__} shape {tuple(q.shape)} dtype {q.dtype} payload {tuple(q._data.shape)} for source {tuple(x.shape)} {x.dtype}"}))
        return out, stats
    if q.qtype.name not in (qtype_names or (qname,)):
        out.append(("meta", None, {"msg": f"qtype {q.qtype.name} != requested {qname}"}))
        return out, stats
    x64 = x.to(torch.float64)
    s64 = scale.to(torch.float64)
    v = num.decode_codes(q._data, qname)
    nan_code = ~torch.isfinite(v)
    if bool(nan_code.any()):
        out.append(("nan_code", nan_code, {}))
        v = torch.nan_to_num(v, nan=0.0, posinf=0.0, neginf=0.0)
    err = (s64 * v - x64).abs()
    best, tie = num.nearest_grid_error(x64, s64, qname)
    u = num.UNIT[dtname]
    tol = 3 * u * x64.abs() + 2 * s64 * num.QSUB[dtname]
    bad = err > best + tol
    if bool(bad.any()):
        sat = x64.abs() > s64 * num.float8.QMAX[qname]
        if bool((bad & sat).any()):
            out.append(("nearest", bad & sat, {"region": "saturating"}))
        if bool((bad & ~sat).any()):
            out.append(("nearest", bad & ~sat, {"region": "in_range"}))
    # dequantize must be the correctly rounded product scale * code
    dq = q.dequantize()
    exact = s64 * v
    want = exact.to(x.dtype)
    if dq.dtype != x.dtype or dq.shape != x.shape:
        out.append(("meta", None, {"msg": f"dequantize gives {dq.dtype}{tuple(dq.shape)}"}))
    else:
        neq = num.bits_of(dq) != num.bits_of(want)
        neq = neq & ~(torch.isnan(dq) & torch.isnan(want))
        if bool(neq.any()):
            out.append(("dequant_bits", neq, {}))
        if want_idem and dtname in ("float32", "float16"):
            q2 = _quantize(dq, scale, qname, mode)
            v2 = num.decode_codes(q2._data, qname)
            fin = torch.isfinite(dq)
            diff = fin & ~(v2 == v)
            if bool(diff.any()):
                inexact = want.to(torch.float64) != exact
                sub = exact.abs() < num.FMIN_NORMAL[dtname]
                a = diff & inexact & sub
                b = diff & ~(inexact & sub)
                if bool(a.any()):
                    out.append(("idempotence", a, {"grid_point_representable": False, "float8": qname != "qint8"}))
                if bool(b.any()):
                    out.append(("idempotence", b, {"grid_point_representable": True, "float8": qname != "qint8"}))
    sat = x64.abs() > s64 * num.float8.QMAX[qname]
    stats["saturating"] = int(sat.sum())
    stats["ties"] = int(tie.sum())
    stats["offgrid"] = int(((best > 0) & ~sat).sum())
    stats["elements"] = x.numel()
    return out, stats


def _witness(x, scale, mask):
    idx = mask.nonzero()[0]
    i = tuple(idx.tolist())
    sb = scale.expand(x.shape) if scale.ndim else scale.expand(x.shape)
    return num.hexbits(x[i].reshape(1))[0], num.hexbits(sb[i].reshape(1))[0], int(mask.sum())


def _from_hex(h, dt):
    n = int(h, 16)
    if dt == torch.float32:
        if n >= 1 << 31:
            n -= 1 << 32
        return torch.tensor([n], dtype=torch.int32).view(torch.float32)[0]
    if n >= 1 << 15:
        n -= 1 << 16
    return torch.tensor([n], dtype=torch.int16).view(dt)[0]


def _eval_matrix(X, scales, dtname, qname, mode, case_base):
    """X: (S,V) values (row i is quantized with scales[i]); returns violations, stats."""
    vs = []
    stats = {"saturating": 0, "ties": 0, "offgrid": 0, "elements": 0, "calls": 0}
    S = scales.numel()
    runs = []
    if mode == "axis0":
        runs.append((X, scales.view(S, 1)))
    elif mode == "axism1":
        runs.append((X.t().contiguous(), scales.view(1, S)))
    else:
        for i in range(S):
            runs.append((X[i].contiguous(), scales[i].clone()))
    for xx, sc in runs:
        fields = {"dtype": dtname, "qtype": qname, "mode": mode}
        try:
            q = _quantize(xx, sc, qname, mode)
            stats["calls"] += 1
            res, st = judge(xx, sc, q, dtname, qname, mode)
        except Exception as e:  # noqa
            case = dict(case_base, mode=mode, x_hex=num.hexbits(xx.flatten()[:1])[0], s_hex=num.hexbits(sc.flatten()[:1])[0])
            vs.append(violation(PID, case, dict(fields, sub="raised"), f"raised: quantization of a finite tensor with a finite positive scale raised {type(e).__name__}: {e}"))
            continue
        for k in ("saturating", "ties", "offgrid", "elements"):
            stats[k] += st.get(k, 0)
        for sub, mask, extra in res:
            f = dict(fields, sub=sub, **{k: v for k, v in extra.items() if k != "msg"})
            if mask is None:
                case = dict(case_base, mode=mode, x_hex=num.hexbits(xx.flatten()[:1])[0], s_hex=num.hexbits(sc.flatten()[:1])[0])
                vs.append(violation(PID, case, f, f"{sub}: {extra.get('msg')}"))
            else:
                xh, sh, n = _witness(xx, sc, mask)
                case = dict(case_base, mode=mode, x_hex=xh, s_hex=sh)
                vs.append(violation(PID, case, f, f"{sub}: {n} element(s) fail, e.g. x=0x{xh} scale=0x{sh} ({dtname},{qname},{mode})", {"count": n}))
    return vs, stats


def _layout_variants(shape, dt):
    n = 1
    for d in shape:
        n *= d
    idx = torch.arange(n, dtype=torch.float64)
    vals = (((idx * 37) % 61) - 30) * 0.37 + idx * 0.001
    vals[0] = 1000.0  # saturates for small scales
    if n > 1:
        vals[-1] = -1000.0
    base = vals.to(dt).reshape(shape)
    yield "contig", base.clone()
    if len(shape) >= 2:
        perm = list(range(len(shape)))[::-1]
        yield "permuted", base.permute(perm).contiguous().permute(perm)
    big = torch.zeros((shape[0] * 2,) + tuple(shape[1:]), dtype=dt)
    big[::2] = base
    big[1::2] = float("nan")  # poison
    yield "step2", big[::2]
    if len(shape) >= 1 and shape[-1] == 1 and n > 0:
        yield "expanded", base.clone().expand(shape)
    if len(shape) >= 2 and shape[0] > 1:
        # row-broadcast (stride 0 on dim 0)
        yield "bcast0", base[:1].expand(shape)


def _layout_task(task):
    qname, dtname = task["q"], task["dt"]
    dt = num.DTYPES[dtname]
    vs = []
    stats = {"saturating": 0, "ties": 0, "offgrid": 0, "elements": 0, "calls": 0, "cases": 0}
    only = task.get("only")
    shapes = [tuple(s_) for s_ in task["shapes"]] if task.get("shapes") else [shape for rank in range(1, 5) for shape in itertools.product((1, 2, 3), repeat=rank)]
    for shape in shapes:
        rank = len(shape)
        if True:
            for lname, x in _layout_variants(shape, dt):
                for mode in ("none", "tensor", "axis0", "axism1"):
                    if mode in ("axis0", "axism1"):
                        ax = 0 if mode == "axis0" else -1
                        if rank < 2 or shape[ax] == 1:
                            continue
                        sshape = [1] * rank
                        sshape[ax] = shape[ax]
                        j = torch.arange(shape[ax], dtype=torch.float64)
                        sc = (0.05 * (j % 7 + 1) * 1.7 ** (j % 5)).to(dt).reshape(sshape)
                    else:
                        sc = torch.tensor(0.173, dtype=dt)
                    if only and only != [list(shape), lname, mode]:
                        continue
                    stats["cases"] += 1
                    fields = {"dtype": dtname, "qtype": qname, "mode": mode, "layout": lname}
                    case = dict(task, only=[list(shape), lname, mode])
                    if dtname != "float32" and lname in ("contig", "permuted") and not task.get("shapes"):
                        # a half-precision source with a float32 scale (scales kept in float32): the working dtype is float32
                        try:
                            sc32 = (sc.to(torch.float32) * 1.0371).to(torch.float32)
                            q32 = _quantize(x, sc32, qname, mode)
                            stats["calls"] += 1
                            # a 0-dim float32 scale does not promote a half-precision tensor (torch type promotion): the quotient is
                            # computed in the source dtype, which is then the working dtype; a per-axis float32 scale promotes
                            res32, _ = judge(x.to(torch.float32), sc32, q32, "float32" if mode in ("axis0", "axism1") else dtname, qname, mode, want_idem=False)
                            for sub, mask, extra in res32:
                                vs.append(violation(PID, case, dict(fields, sub="mixed_" + sub, scale_dtype="float32"), f"mixed_{sub}: {dtname} source with a float32 scale, shape {shape} layout {lname} mode {mode} ({qname}) {extra.get('msg', '')}"))
                        except Exception as e:  # noqa
                            vs.append(violation(PID, case, dict(fields, sub="raised", scale_dtype="float32"), f"raised: {dtname} source with a float32 scale: {type(e).__name__}: {e}"))
                    try:
                        if x.numel() >= 1 << 20:
                            num.poison(x.numel() * x.element_size(), x.numel())
                        q = _quantize(x, sc, qname, mode)
                        stats["calls"] += 1
                        res, st = judge(x, sc, q, dtname, qname, mode)
                    except Exception as e:  # noqa
                        vs.append(violation(PID, case, dict(fields, sub="raised"), f"raised: {type(e).__name__}: {e} for shape {shape} layout {lname} mode {mode}"))
                        continue
                    for k in ("saturating", "ties", "offgrid", "elements"):
                        stats[k] += st.get(k, 0)
                    for sub, mask, extra in res:
                        f = dict(fields, sub=sub, **{k: v for k, v in extra.items() if k != "msg"})
                        vs.append(violation(PID, case, f, f"{sub}: shape {shape} layout {lname} mode {mode} ({dtname},{qname}) {extra.get('msg', '')}"))
    return vs, stats


def _repeat_task(task):
    """Repetition ladder: the n-th call must behave like the first. (a) the same quantized tensor is dequantized n times and every
    returned tensor is scribbled on afterwards (results must be fresh, never an internal buffer); (b) n same-shaped tensors are
    quantized, all results are held and judged only at the end (no result may be overwritten by a later call)."""
    qname, dtname, n = task["q"], task["dt"], task["n"]
    dt = num.DTYPES[dtname]
    vs = []
    stats = {"elements": 0, "calls": 0, "cases": 0}
    only = task.get("only")
    idx = torch.arange(32, dtype=torch.float64).reshape(4, 8)
    base = ((((idx * 37) % 61) - 30) * 0.37 + idx * 0.001)
    for mode in ("none", "tensor", "axis0", "axism1"):
        if only and only != [mode]:
            continue
        if mode in ("axis0", "axism1"):
            ax = 0 if mode == "axis0" else -1
            sshape = [1, 1]
            sshape[ax] = base.shape[ax]
            j = torch.arange(base.shape[ax], dtype=torch.float64)
            sc = (0.05 * (j + 1) * 1.3**j).to(dt).reshape(sshape)
        else:
            sc = torch.tensor(0.173, dtype=dt)
        fields = {"dtype": dtname, "qtype": qname, "mode": mode, "layout": "repeat"}
        case = dict(task, only=[mode])
        stats["cases"] += 1
        try:
            x = base.to(dt)
            q = _quantize(x, sc, qname, mode)
            first = q.dequantize().clone()
            res, st = judge(x, sc, q, dtname, qname, mode)
            for sub, mask, extra in res:
                vs.append(violation(PID, case, dict(fields, sub=sub, **{k: v for k, v in extra.items() if k != "msg"}), f"{sub}: repeat base case mode {mode} ({dtname},{qname}) {extra.get('msg', '')}"))
            for i in range(n):
                d = q.dequantize()
                stats["calls"] += 1
                if not num.same_bits(d, first):
                    vs.append(violation(PID, case, dict(fields, sub="repeat_dequantize"), f"repeat_dequantize: dequantization #{i + 2} of the same quantized tensor differs from the first one (mode {mode}, {dtname}, {qname}); earlier results had been modified in place by the caller"))
                    break
                d.neg_().add_(3.0)  # the caller owns the result
            held = []
            for i in range(n):
                xi = (base * (1.0 + i / 8.0) + (i % 5) * 0.01).to(dt)
                qi = _quantize(xi, sc, qname, mode)
                di = qi.dequantize()
                held.append((xi, qi, di, di.clone()))
                stats["calls"] += 1
            for i, (xi, qi, di, snap) in enumerate(held):
                if not num.same_bits(di, snap):
                    vs.append(violation(PID, case, dict(fields, sub="held_dequantized"), f"held_dequantized: the dequantized tensor #{i + 1} of {n} changed after later same-shaped dequantizations (mode {mode}, {dtname}, {qname})"))
                    break
                res, st = judge(xi, sc, qi, dtname, qname, mode, want_idem=False)
                stats["elements"] += st.get("elements", 0)
                for sub, mask, extra in res:
                    vs.append(violation(PID, case, dict(fields, sub="held_" + sub), f"held_{sub}: result #{i + 1} of {n} same-shaped quantizations, judged after all of them ran (mode {mode}, {dtname}, {qname}) {extra.get('msg', '')}"))
                    break
                if len(vs) > 8:
                    break
        except Exception as e:  # noqa
            vs.append(violation(PID, case, dict(fields, sub="raised"), f"raised: {type(e).__name__}: {e} in the repetition ladder mode {mode}"))
    # many live objects: n per-tensor quantized tensors of 8192 elements, each with its own scale object, dequantized in two
    # passes (tables or buffers cached per scale object / slot rings must not serve one tensor with the data of another)
    if (only is None or only == ["live"]) and task.get("live"):
        fields = {"dtype": dtname, "qtype": qname, "mode": "tensor", "layout": "live"}
        case = dict(task, only=["live"])
        stats["cases"] += 1
        try:
            i8 = torch.arange(8192, dtype=torch.float64)
            live = []
            for i in range(task["live"]):
                xi = ((((i8 * 37 + i) % 61) - 30) * 0.37).to(dt)
                sc = torch.tensor(0.05 * (1 + i % 17), dtype=dt)
                live.append((xi, sc, _quantize(xi, sc, qname, "tensor")))
            firsts = []
            for ps in range(2):
                for i, (xi, sc, qi) in enumerate(live):
                    d = qi.dequantize()
                    stats["calls"] += 1
                    if ps == 0:
                        firsts.append(d.clone())
                        if i % 16 == 0:
                            res, st = judge(xi, sc, qi, dtname, qname, "tensor", want_idem=False)
                            for sub, mask, extra in res:
                                vs.append(violation(PID, case, dict(fields, sub="live_" + sub), f"live_{sub}: tensor #{i + 1} of {len(live)} live quantized tensors ({dtname},{qname}) {extra.get('msg', '')}"))
                    elif not num.same_bits(d, firsts[i]):
                        vs.append(violation(PID, case, dict(fields, sub="live_dequantize"), f"live_dequantize: second-pass dequantization of tensor #{i + 1} of {len(live)} live quantized tensors differs from the first pass ({dtname},{qname})"))
                        break
        except Exception as e:  # noqa
            vs.append(violation(PID, case, dict(fields, sub="raised"), f"raised: {type(e).__name__}: {e} in the live-objects ladder"))
    return vs, stats


def run_task(task):
    kind = task["kind"]
    out = {"evals": 0, "nontrivial": 0, "points": 0, "calls": 0, "violations": [], "samples": [], "counters": {}}
    if kind == "repeat":
        vs, st = _repeat_task(task)
        out["violations"] += vs[:20]
        out["nviol"] = len(vs)
        out["evals"] += st["elements"]
        out["points"] += st["cases"]
        out["calls"] += st["calls"]
        out["nontrivial"] += st["cases"]
        out["counters"]["repeat_calls"] = st["calls"]
    elif kind == "half":
        dtname, qname = task["dt"], task["q"]
        scales = (_half_scales_quick(dtname) if task["set"] == "quick" else num.all_positive_finite_half(dtname))[task["lo"]:task["hi"]]
        xs = num.all_finite_half(dtname)
        X = xs.view(1, -1).expand(scales.numel(), -1)
        first = True
        for mode in task["modes"]:
            vs, st = _eval_matrix(X, scales, dtname, qname, mode, {"kind": "point", "dt": dtname, "q": qname})
            out["violations"] += vs[:12]
            out["nviol"] = out.get("nviol", 0) + len(vs)
            out["evals"] += st["elements"]
            out["calls"] += st["calls"]
            if first:
                out["nontrivial"] += st["saturating"] + st["offgrid"]  # ties are a subset of the off-grid elements
                out["points"] += st["elements"]
                for k in ("saturating", "ties", "offgrid"):
                    out["counters"][k] = out["counters"].get(k, 0) + st[k]
                first = False
        out["samples"].append({"dtype": dtname, "qtype": qname, "scale_hex": num.hexbits(scales[:1])[0], "value_hex": num.hexbits(xs[12345:12346])[0], "modes": task["modes"]})
    elif kind == "f32":
        qname = task["q"]
        scales = _f32_scales(task["tier"])[task["lo"]:task["hi"]]
        lat = _f32_lattice()
        X = lat.view(1, -1).expand(scales.numel(), -1)
        vs, st = _eval_matrix(X, scales, "float32", qname, "axis0", {"kind": "point", "dt": "float32", "q": qname})
        out["violations"] += vs[:12]
        out["nviol"] = len(vs)
        out["evals"] += st["elements"]
        out["points"] += st["elements"]
        out["calls"] += st["calls"]
        out["nontrivial"] += st["saturating"] + st["offgrid"]
        for k in ("saturating", "ties", "offgrid"):
            out["counters"][k] = out["counters"].get(k, 0) + st[k]
        for s in scales:
            b = _f32_boundary(s, qname)
            for mode in ("tensor", "axis0"):
                Xb = b.view(1, -1).expand(2, -1)
                vs, st = _eval_matrix(Xb, torch.stack([s, s]), "float32", qname, mode, {"kind": "point", "dt": "float32", "q": qname})
                out["violations"] += vs[:6]
                out["nviol"] += len(vs)
                out["evals"] += st["elements"]
                out["calls"] += st["calls"]
                if mode == "tensor":
                    out["points"] += st["elements"] // 2
                    out["nontrivial"] += (st["saturating"] + st["offgrid"]) // 2
                    out["counters"]["boundary_ties"] = out["counters"].get("boundary_ties", 0) + st["ties"] // 2
        out["samples"].append({"dtype": "float32", "qtype": qname, "scale": float(scales[0]), "lattice_points": int(lat.numel()), "boundary_points": int(b.numel())})
    elif kind == "layout":
        vs, st = _layout_task(task)
        out["violations"] += vs[:20]
        out["nviol"] = len(vs)
        out["evals"] += st["elements"]
        out["points"] += st["cases"]
        out["calls"] += st["calls"]
        out["nontrivial"] += st["cases"]
        out["counters"]["layout_cases"] = st["cases"]
        out["samples"].append({"kind": "layout", "qtype": task["q"], "dtype": task["dt"], "shape": [3, 1, 2], "layout": "step2", "mode": "axis0"})
    return out


def replay_task(case):
    if case["kind"] == "layout":
        return _layout_task(case)[0]
    if case["kind"] == "repeat":
        return _repeat_task(case)[0]
    dtname, qname, mode = case["dt"], case["q"], case["mode"]
    dt = num.DTYPES[dtname]
    x = _from_hex(case["x_hex"], dt)
    s = _from_hex(case["s_hex"], dt)
    X = torch.stack([x, x]).view(1, 2).expand(2, 2)
    vs, _ = _eval_matrix(X, torch.stack([s, s]), dtname, qname, mode, {"kind": "point", "dt": dtname, "q": qname})
    return vs


def coverage(agg, tier, tasks):
    from ..pool import HarnessError

    c = agg.counters
    for k in ("saturating", "ties", "offgrid", "layout_cases"):
        if c.get(k, 0) == 0:
            raise HarnessError(f"vacuity guard: no {k} element was visited")
    return {
        "rule": RULE,
        "states": agg.points,
        "transitions": agg.calls,
        "traces_validated_against_impl": agg.calls,
        "exhaustive": True,
        "bounds": {
            "float16_scales": int(_half_scales("float16", tier).numel()),
            "bfloat16_scales": int(_half_scales("bfloat16", tier).numel()),
            "float32_scales": int(_f32_scales(tier).numel()),
            "half_values": "all finite bit patterns",
            "layout_shapes": "rank 1..4, dims {1,2,3}",
        },
        "counters": dict(sorted(c.items())),
        "element_evaluations": agg.evals,
    }
