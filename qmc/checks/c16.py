"""C16 - finite tensors never quantize to NaN/Inf, whatever their range (E1)."""
import itertools

import torch

from .. import num, wq
from ..report import violation
from . import c01

PID = "C16"
LEVEL = "model_checking"
MIX = ["zeros", "const_pos", "one_sided_neg", "offset9", "subnormal", "near_max_pos", "near_max_mixed", "straddle", "single"]
RULE = (
    "weights: every mixture (ordered assignment) of the 9 row/group classes {zeros, constant, one-sided, offset, subnormal, "
    "near dtype max (one-sided / mixed signs), straddling, single non-zero} over 1..4 rows (9+81+729+6561 mixtures; quick: 1..3 rows "
    "+ cyclic 4-row mixtures) x qtype {qint8,e4m3fn,e5m2,qint4,qint2} x axis {0,-1} x group_size {None,2} x dtype {f32,f16,bf16} "
    "through quantize_weight with default optimizers; modules: QLinear/QConv2d with all-zero weights or zero rows x 6 weight qtypes x "
    "dtypes (output must equal the bias bit for bit); calibration on {zero, constant, tiny, huge, subnormal} batches x 3 activation "
    "qtypes followed by inference. Non-trivial = mixtures containing at least one degenerate (zero/constant/extreme) class."
)
ASSUMPTIONS = [
    "error bounds re-used from C01 (nearest grid point for the library-chosen scale) and C02 (half step)",
    "bf16 Linear layers use in_features with in%16==0 to stay clear of the torch int8pack kernel defect recorded under C07",
]


def plan(tier, seed):
    tasks = []
    for dt in ("float32", "float16", "bfloat16"):
        for q in ("qint8", "qfloat8_e4m3fn", "qfloat8_e5m2", "qint4", "qint2"):
            for rows in (1, 2, 3, 4):
                n = len(MIX) ** rows
                if rows == 4 and tier == "quick":
                    tasks.append({"kind": "mix", "dt": dt, "q": q, "rows": 4, "cyclic": True, "lo": 0, "hi": len(MIX)})
                    continue
                CH = 800
                for lo in range(0, n, CH):
                    tasks.append({"kind": "mix", "dt": dt, "q": q, "rows": rows, "cyclic": False, "lo": lo, "hi": min(n, lo + CH)})
        tasks.append({"kind": "modules", "dt": dt})
        tasks.append({"kind": "calib", "dt": dt})
        tasks.append({"kind": "soak_zero", "dt": dt, "n": 300 if tier == "quick" else 1500})
        for q in ("qint8", "qfloat8_e4m3fn", "qfloat8_e5m2", "qint4", "qint2"):
            tasks.append({"kind": "repeat", "dt": dt, "q": q, "n": 48 if tier == "quick" else 300})
        # size ladder: more than 2^20 elements, every degenerate class present many times (block-wise / in-place fast paths)
        if dt == "float32" or tier == "thorough":
            for q in ("qint8", "qfloat8_e4m3fn", "qfloat8_e5m2", "qint4", "qint2"):
                tasks.append({"kind": "mix", "dt": dt, "q": q, "rows": 1031, "g": 1024, "gs": 128, "cyclic": True, "lo": 0, "hi": 2, "shifts": 2})
                if tier == "thorough" and dt == "float32":
                    tasks.append({"kind": "mix", "dt": dt, "q": q, "rows": 4100, "g": 4224, "gs": 128, "cyclic": True, "lo": 0, "hi": 1, "shifts": 1})
    return tasks


def _mix_task(task, out):
    from optimum.quanto import quantize_weight

    dtname, qname, rows = task["dt"], task["q"], task["rows"]
    dt = num.DTYPES[dtname]
    affine = qname in ("qint2", "qint4")
    bits = {"qint2": 2, "qint4": 4}.get(qname, 8)
    g = task.get("g", 4)
    if task["cyclic"]:
        asgs = [tuple((k + s) % len(MIX) for k in range(rows)) for s in range(task.get("shifts", len(MIX)))]
    else:
        asgs = list(itertools.product(range(len(MIX)), repeat=rows))[task["lo"]:task["hi"]]
    only = task.get("only")
    for asg in asgs:
        names = [MIX[c] for c in asg]
        if task.get("g"):
            # large mixtures: rows reaching the dtype maximum overflow on dequantization (known finding F-C16-1) and would hide
            # everything else in the tensor; they are covered by the small mixtures
            names = [nm if not nm.startswith("near_max") else "offset9" for nm in names]
        for axis in (0, -1):
            for gs in ((None, task.get("gs", 2)) if affine else (None,)):
                if only and only != [list(asg), axis, gs]:
                    continue
                if rows == 1 and not affine:
                    shape = (1, g) if axis == 0 else (g, 1)
                else:
                    shape = (rows, g) if axis == 0 else (g, rows)
                if gs is None:
                    table = torch.stack([wq.gen_class(nm, g, dtname, k) for k, nm in enumerate(names)])
                else:
                    # two groups per row, both of the row's class (different phase)
                    table = torch.stack([wq.gen_class(nm, gs, dtname, 2 * k + h) for k, nm in enumerate(names) for h in range(g // gs)])
                x = wq.fill(shape, axis, gs, table, dt)
                out["evals"] += 1
                out["calls"] += 1
                out["points"] += 1
                if any(nm != "straddle" for nm in names):
                    out["nontrivial"] += 1
                has_max = any(nm.startswith("near_max") for nm in names)
                fields = {"kind": "mix", "qtype": qname, "dtype": dtname, "near_max": has_max, "zero_row": "zeros" in names}
                case = dict(task, only=[list(asg), axis, gs])
                try:
                    if x.numel() >= 1 << 20:
                        num.poison(x.numel() * x.element_size(), x.numel())
                    q = quantize_weight(x, num.qt(qname), axis, gs) if affine else quantize_weight(x, num.qt(qname), axis)
                    dq = q.dequantize()
                except Exception as e:  # noqa
                    out["violations"].append(violation(PID, case, dict(fields, sub="raised"), f"raised: quantize_weight of a finite tensor raised {type(e).__name__}: {e} (classes {names})"))
                    continue
                if not bool(torch.isfinite(dq).all()):
                    nf = ~torch.isfinite(dq)
                    bad = nf.sum().item()
                    # which rows (indices of the quantization axis) hold the non-finite values: the known defect F-C16-1 only
                    # concerns rows that reach the dtype maximum, NaN/Inf in any other row is something else
                    badrows = (nf.any(dim=1) if axis == 0 else nf.any(dim=0)).nonzero().flatten().tolist()
                    fields = dict(fields, near_max=all(names[r % len(names)].startswith("near_max") for r in badrows))
                    out["violations"].append(violation(PID, case, dict(fields, sub="nonfinite"), f"nonfinite: {bad} NaN/Inf value(s) after quantize_weight({qname}) of a finite {dtname} tensor with row classes {names[:12]}{"..." if len(names) > 12 else ""} axis {axis} group_size {gs}"))
                    continue
                if affine:
                    for sub, n_, msg, extra in wq.affine_judge(x, q, bits, axis, gs, dtname, idempotence=False):
                        if sub == "nonfinite":
                            continue
                        out["violations"].append(violation(PID, case, dict(fields, sub=sub), f"{sub}: {msg} (classes {names})"))
                else:
                    sc = q._scale
                    if not bool((torch.isfinite(sc) & (sc >= 0)).all()):
                        out["violations"].append(violation(PID, case, dict(fields, sub="scale_nonfinite"), f"scale_nonfinite: scale {sc.flatten().tolist()[:4]}"))
                        continue
                    mode = "none" if q.axis is None else ("axis0" if q.axis == 0 else "axism1")
                    res, _ = c01.judge(x, sc, q, dtname, qname, mode, want_idem=False)
                    for sub, mask, extra in res:
                        if sub == "dequant_bits":
                            continue
                        n_ = int(mask.sum()) if mask is not None else 1
                        out["violations"].append(violation(PID, case, dict(fields, sub="c01_" + sub), f"c01_{sub}: {n_} element(s) violate the C01 bound for the chosen scale (classes {names}) {extra.get('msg', '')}"))
        for nm in names:
            out["counters"]["class_" + nm] = out["counters"].get("class_" + nm, 0) + 1


WQ = ["qint8", "qfloat8", "qfloat8_e4m3fn", "qfloat8_e5m2", "qint4", "qint2"]


def _repeat_task(task, out):
    """Repetition ladder: n same-shaped degenerate tensors are quantized and dequantized, every result is kept, and all of them
    are judged at the end (a result must stay what it was when it was returned: no recycled buffers)."""
    from optimum.quanto import quantize_weight

    dtname, qname, n = task["dt"], task["q"], task["n"]
    dt = num.DTYPES[dtname]
    affine = qname in ("qint2", "qint4")
    only = task.get("only")
    names = [m for m in MIX if not m.startswith("near_max")]
    for axis in (0, -1):
        c = [axis]
        if only and only != c:
            continue
        held = []
        fields = {"kind": "repeat", "qtype": qname, "dtype": dtname}
        case = dict(task, only=c)
        out["evals"] += 1
        out["points"] += 1
        out["nontrivial"] += 1
        try:
            for i in range(n):
                rows = [names[(i + k) % len(names)] for k in range(3)]
                table = torch.stack([wq.gen_class(nm, 4, dtname, i + k) for k, nm in enumerate(rows)])
                x = wq.fill((3, 4) if axis == 0 else (4, 3), axis, None, table, dt)
                q = quantize_weight(x, num.qt(qname), axis)
                d = q.dequantize()
                out["calls"] += 1
                held.append((i, rows, x, q, d, d.clone()))
        except Exception as e:  # noqa
            out["violations"].append(violation(PID, case, dict(fields, sub="raised"), f"raised: repetition ladder: {type(e).__name__}: {e}"))
            continue
        for i, rows, x, q, d, snap in held:
            if not num.same_bits(d, snap):
                out["violations"].append(violation(PID, case, dict(fields, sub="result_overwritten"), f"result_overwritten: the dequantized tensor #{i + 1} of {n} (classes {rows}) changed after later same-shaped dequantizations"))
                break
            if not bool(torch.isfinite(d).all()):
                out["violations"].append(violation(PID, case, dict(fields, sub="nonfinite"), f"nonfinite: result #{i + 1} (classes {rows})"))
                break
            if "zeros" in rows:
                r = rows.index("zeros")
                row = d[r] if axis == 0 else d[:, r]
                if bool((row != 0).any()):
                    out["violations"].append(violation(PID, case, dict(fields, sub="zero_row"), f"zero_row: an all-zero row dequantizes to non-zero values in result #{i + 1}"))
                    break


def _soak_zero_task(task, out):
    """Repetition ladder for modules: an unfrozen module is evaluated many times, then rows of its weight are zeroed in place; the
    next forward is finite and the zeroed output features equal the bias exactly."""
    dtname = task["dt"]
    dt = num.DTYPES[dtname]
    only = task.get("only")
    from optimum.quanto import quantize

    for wname in WQ:
        for how in ("inplace", "data"):
            c = [wname, how]
            if only and only != c:
                continue
            fields = {"kind": "soak_zero", "qtype": wname, "dtype": dtname, "update": how}
            case = dict(task, only=c)
            out["evals"] += 1
            out["points"] += 1
            out["nontrivial"] += 1
            try:
                lin = torch.nn.Linear(16, 4)
                with torch.no_grad():
                    for p in lin.parameters():
                        p.copy_((((torch.arange(p.numel(), dtype=torch.float64) * 5) % 11 - 5) / 8).reshape(p.shape))
                model = torch.nn.Sequential(lin).to(dt)
                quantize(model, weights=num.qt(wname))
                x = _batch("normal", (2, 16), dtname)
                with torch.no_grad():
                    for _ in range(task["n"]):
                        model(x)
                        out["calls"] += 1
                    if how == "inplace":
                        model[0].weight[1].zero_()
                        model[0].weight[3].zero_()
                    else:
                        model[0].weight.data[1].zero_()
                        model[0].weight.data[3].zero_()
                    y = model(x)
                if not bool(torch.isfinite(y).all()):
                    out["violations"].append(violation(PID, case, dict(fields, sub="nonfinite"), f"nonfinite: after {task['n']} forwards and zeroing two weight rows ({how}) the output of a {wname} QLinear is not finite"))
                    continue
                b = model[0].bias.detach()
                if not (num.same_bits(y[:, 1], b[1].expand(2)) and num.same_bits(y[:, 3], b[3].expand(2))):
                    out["violations"].append(violation(PID, case, dict(fields, sub="zero_row_not_bias"), f"zero_row_not_bias: after {task['n']} forwards and zeroing two weight rows ({how}) the zeroed output features of a {wname} QLinear differ from the bias"))
            except Exception as e:  # noqa
                out["violations"].append(violation(PID, case, dict(fields, sub="raised"), f"raised: {type(e).__name__}: {e}"))


def _modules_task(task, out):
    from optimum.quanto import freeze, quantize

    dtname = task["dt"]
    dt = num.DTYPES[dtname]
    only = task.get("only")
    torch.manual_seed(0)
    for mk in ("linear", "conv"):
        for wname in WQ:
            for pattern in ("all_zero", "zero_row", "zero_col", "const_wide"):
                for frozen in (False, True):
                    c = [mk, wname, pattern, frozen]
                    if only and only != c:
                        continue
                    if pattern == "const_wide" and mk != "linear":
                        continue
                    if pattern == "const_wide":
                        # constant one-sided rows times one-sided inputs over many features: the un-scaled codes must not overflow
                        m = torch.nn.Linear(256, 3, bias=True)
                        x = torch.full((2, 256), 4.0, dtype=torch.float64).to(dt)
                    elif mk == "linear":
                        m = torch.nn.Linear(16, 3, bias=True)
                        x = (torch.arange(2 * 16, dtype=torch.float64).reshape(2, 16) % 7 - 3).to(dt)
                    else:
                        m = torch.nn.Conv2d(2, 3, 2, bias=True)
                        x = (torch.arange(2 * 2 * 3 * 3, dtype=torch.float64).reshape(2, 2, 3, 3) % 5 - 2).to(dt)
                    with torch.no_grad():
                        w = ((torch.arange(m.weight.numel(), dtype=torch.float64).reshape(m.weight.shape) % 9) - 4) / 8
                        if pattern == "const_wide":
                            w = torch.full(m.weight.shape, 0.5, dtype=torch.float64)
                            w[1] = 0.01
                            w[2] = -0.25
                        elif pattern == "all_zero":
                            w.zero_()
                        elif pattern == "zero_row":
                            w[1].zero_()
                        else:
                            w[:, 0].zero_()
                        m.weight.copy_(w)
                        m.bias.copy_(torch.tensor([0.5, -1.25, 3.0]))
                    model = torch.nn.Sequential(m).to(dt)
                    fields = {"kind": "modules", "module": mk, "qtype": wname, "dtype": dtname, "pattern": pattern}
                    case = dict(task, only=c)
                    out["evals"] += 1
                    out["calls"] += 1
                    out["points"] += 1
                    out["nontrivial"] += 1
                    try:
                        quantize(model, weights=num.qt(wname))
                        if frozen:
                            freeze(model)
                        with torch.no_grad():
                            y = model(x)
                    except Exception as e:  # noqa
                        out["violations"].append(violation(PID, case, dict(fields, sub="raised"), f"raised: {type(e).__name__}: {e}"))
                        continue
                    if not bool(torch.isfinite(y).all()):
                        out["violations"].append(violation(PID, case, dict(fields, sub="nonfinite"), f"nonfinite: output of {mk} with {pattern} weights ({wname},{dtname}, frozen={frozen}) has NaN/Inf"))
                        continue
                    bias = model[0].bias.detach()
                    if pattern == "all_zero":
                        want = bias.view(1, 3) if mk == "linear" else bias.view(1, 3, 1, 1)
                        want = want.expand_as(y).contiguous()
                        if not num.same_bits(y.contiguous(), want):
                            out["violations"].append(violation(PID, case, dict(fields, sub="not_bias"), f"not_bias: a layer with all-zero weights does not output exactly its bias ({mk},{wname},{dtname},frozen={frozen}): {y.flatten()[:3].tolist()}"))
                    elif pattern == "zero_row":
                        got = y[:, 1] if mk == "linear" else y[:, 1]
                        want = torch.full_like(got, float(bias[1]))
                        if not num.same_bits(got.contiguous(), want):
                            out["violations"].append(violation(PID, case, dict(fields, sub="not_bias"), f"not_bias: output channel with zero weights is not exactly its bias ({mk},{wname},{dtname},frozen={frozen})"))


BATCHES = ["zero", "constant", "tiny", "huge", "subnormal", "normal"]


def _batch(kind, shape, dtname):
    n = 1
    for d in shape:
        n *= d
    r = ((torch.arange(n, dtype=torch.float64) * 7) % 13 - 6) / 6
    if kind == "zero":
        v = torch.zeros(n, dtype=torch.float64)
    elif kind == "constant":
        v = torch.full((n,), 0.75, dtype=torch.float64)
    elif kind == "tiny":
        v = r * 2.0**-12
    elif kind == "huge":
        v = r * num.FMAX[dtname] / 64
        v[0] = num.FMAX[dtname] / 64
    elif kind == "subnormal":
        v = torch.round(r * 5) * num.QSUB[dtname]
    else:
        v = r
    return v.reshape(shape).to(num.DTYPES[dtname])


def _calib_task(task, out):
    from optimum.quanto import Calibration, QBytesTensor, freeze, quantize

    dtname = task["dt"]
    dt = num.DTYPES[dtname]
    only = task.get("only")
    for mk in ("linear", "conv", "layernorm"):
        for aname in num.Q8:
            for cal in BATCHES:
                for inf in BATCHES:
                    c = [mk, aname, cal, inf]
                    if only and only != c:
                        continue
                    if mk == "linear":
                        m = torch.nn.Linear(16, 4)
                        shape = (2, 16)
                    elif mk == "conv":
                        m = torch.nn.Conv2d(2, 3, 2)
                        shape = (2, 2, 3, 3)
                    else:
                        m = torch.nn.LayerNorm(16)
                        shape = (2, 16)
                    with torch.no_grad():
                        for p in m.parameters():
                            p.copy_((((torch.arange(p.numel(), dtype=torch.float64) * 5) % 11 - 5) / 8).reshape(p.shape))
                    model = torch.nn.Sequential(m).to(dt)
                    import copy

                    twin = copy.deepcopy(model)
                    with torch.no_grad():
                        # the property is about quantization: skip batches on which the float module itself overflows
                        if not all(bool(torch.isfinite(twin(_batch(b, shape, dtname))).all()) for b in (cal, inf)):
                            out["counters"]["calib_skipped_float_overflow"] = out["counters"].get("calib_skipped_float_overflow", 0) + 1
                            continue
                    fields = {"kind": "calib", "module": mk, "qtype": aname, "dtype": dtname, "calib_batch": cal, "infer_batch": inf,
                              "huge": "huge" in (cal, inf)}
                    case = dict(task, only=c)
                    out["evals"] += 1
                    out["calls"] += 1
                    out["points"] += 1
                    if cal != "normal" or inf != "normal":
                        out["nontrivial"] += 1
                    try:
                        quantize(model, weights=num.qt("qint8"), activations=num.qt(aname))
                        with torch.no_grad(), Calibration(streamline=False):
                            model(_batch(cal, shape, dtname))
                        with torch.no_grad():
                            y = model(_batch(inf, shape, dtname))
                    except Exception as e:  # noqa
                        out["violations"].append(violation(PID, case, dict(fields, sub="raised"), f"raised: {type(e).__name__}: {e}"))
                        continue
                    # the calibrated model converted to float16 (deployment in half precision) stays finite on the same batches
                    if dtname != "float16" and cal in ("zero", "tiny", "subnormal", "normal") and inf in ("zero", "normal"):
                        try:
                            half = copy.deepcopy(model).to(torch.float16)
                            with torch.no_grad():
                                if bool(torch.isfinite(copy.deepcopy(twin).to(torch.float16)(_batch(inf, shape, "float16"))).all()):
                                    yh = half(_batch(inf, shape, "float16"))
                                    yh = yh.dequantize() if isinstance(yh, QBytesTensor) else yh
                                    out["calls"] += 1
                                    if not bool(torch.isfinite(yh).all()):
                                        out["violations"].append(violation(PID, case, dict(fields, sub="nonfinite", converted="float16"), f"nonfinite: the model calibrated in {dtname} on '{cal}' and converted to float16 gives NaN/Inf on a finite '{inf}' batch ({mk},{aname})"))
                        except Exception as e:  # noqa
                            out["violations"].append(violation(PID, case, dict(fields, sub="raised", converted="float16"), f"raised: converting the calibrated model to float16: {type(e).__name__}: {e}"))
                    qm = model[0]
                    scs = {"input_scale": qm.input_scale, "output_scale": qm.output_scale}
                    badsc = [k for k, v in scs.items() if not bool(torch.isfinite(v).all())]
                    if badsc:
                        out["violations"].append(violation(PID, case, dict(fields, sub="scale_nonfinite"), f"scale_nonfinite: {badsc} not finite after calibrating on a finite '{cal}' batch ({mk},{aname},{dtname})"))
                        continue
                    yd = y.dequantize() if isinstance(y, QBytesTensor) else y
                    if not bool(torch.isfinite(yd).all()):
                        out["violations"].append(violation(PID, case, dict(fields, sub="nonfinite"), f"nonfinite: inference on a finite '{inf}' batch after calibration on '{cal}' gives NaN/Inf ({mk},{aname},{dtname})"))


def _run(task):
    out = {"evals": 0, "nontrivial": 0, "points": 0, "calls": 0, "violations": [], "samples": [], "counters": {}}
    {"mix": _mix_task, "modules": _modules_task, "calib": _calib_task, "repeat": _repeat_task, "soak_zero": _soak_zero_task}[task["kind"]](task, out)
    return out


def run_task(task):
    out = _run(task)
    out["nviol"] = len(out["violations"])
    seen = {}
    for v in out["violations"]:
        seen.setdefault(str(sorted(v["fields"].items())), v)
    out["violations"] = list(seen.values())[:80]
    out["counters"][task["kind"] + "_cases"] = out["points"]
    if task["kind"] == "mix" and task.get("lo") == 0 and task["rows"] == 3:
        out["samples"].append({"kind": "mix", "dtype": task["dt"], "qtype": task["q"], "row_classes": ["zeros", "near_max_pos", "offset9"], "axis": 0})
    if task["kind"] == "calib":
        out["samples"].append({"kind": "calib", "module": "conv", "activations": "qfloat8_e5m2", "calibration_batch": "zero", "inference_batch": "normal"})
    return out


def replay_task(case):
    return _run(case)["violations"]


def coverage(agg, tier, tasks):
    from ..pool import HarnessError

    for k in ("mix_cases", "modules_cases", "calib_cases"):
        if agg.counters.get(k, 0) == 0:
            raise HarnessError(f"vacuity guard: {k} == 0")
    for nm in MIX:
        if agg.counters.get("class_" + nm, 0) == 0:
            raise HarnessError(f"vacuity guard: class {nm} never generated")
    return {
        "rule": RULE,
        "states": agg.points,
        "transitions": agg.calls,
        "traces_validated_against_impl": agg.calls,
        "exhaustive": True,
        "counters": dict(sorted(agg.counters.items())),
    }
