"""C11 - gradients pass straight through quantization and match the float linear backward (E1 + E2)."""
import copy
import itertools

import torch
import torch.nn as nn
import torch.nn.functional as F

from .. import lifecycle, models, num
from ..pool import journal
from ..report import violation

PID = "C11"
LEVEL = "model_checking"
RULE = (
    "Jacobians: QLinear (input ranks 1..4) and QConv2d x 6 weight qtypes x activations {None,qint8,e4m3} x dtype {f32, f16 where CPU backward exists} x {frozen, unfrozen} x upstream "
    "gradients = the complete one-hot basis of the output (every Jacobian entry is a single product: exact oracle) + all-ones + non-contiguous (transposed) + expanded (stride-0) gradients; "
    "compared with torch autograd on the float twin (dequantized weight as leaf, straight-through (de)quantized input). Histories: breadth-first search to depth 4 (quick) / 5 (thorough) over "
    "{forward+backward, forward under no_grad, SGD step through .data, in-place step under no_grad, torch.optim.SGD step, zero_grad, freeze}; invariant: every forward equals the forward of a "
    "module rebuilt from the current float weights (no stale cache) and frozen weights/scales receive no gradient. Non-trivial = every Jacobian column / history transition."
)
ASSUMPTIONS = [
    "straight-through estimator semantics as stated by the property: quantize/dequantize are identity for gradients",
    "one-hot upstream gradients make every compared number a single product (exact); other gradients use (K+4)u*sum|a||b|",
]
WQ = models.WQ
ACTS = [None, "qint8", "qfloat8_e4m3fn"]


def plan(tier, seed):
    tasks = []
    for dt in ("float32", "float16"):
        for w in WQ:
            for a in ACTS:
                tasks.append({"kind": "jac_linear", "dt": dt, "w": w, "a": a})
                tasks.append({"kind": "jac_conv", "dt": dt, "w": w, "a": a})
                if dt == "float32":
                    tasks.append({"kind": "hist", "dt": dt, "w": w, "a": a, "tier": tier, "mk": "linear"})
                    tasks.append({"kind": "hist", "dt": dt, "w": w, "a": a, "tier": tier, "mk": "conv"})
                    if w in ("qint8", "qfloat8_e4m3fn", "qint4"):
                        for mk in ("linear", "conv"):
                            tasks.append({"kind": "ladder", "dt": dt, "w": w, "a": a, "mk": mk, "steps": [1, 3, 48] if tier == "quick" else [1, 2, 17, 33, 48, 100, 300], "rows": [40000] if tier == "quick" else [40000, 70001, 140003]})
                        tasks.append({"kind": "hist", "dt": dt, "w": w, "a": a, "tier": tier, "mk": "linear", "long": 60 if tier == "quick" else 200})
                        tasks.append({"kind": "hist", "dt": dt, "w": w, "a": a, "tier": tier, "mk": "conv", "long": 60 if tier == "quick" else 200})
    return tasks


def _mk_linear(dt, bias=True, fin=6, fout=4):
    torch.manual_seed(0)
    m = nn.Linear(fin, fout, bias=bias)
    for k, p in enumerate(m.parameters()):
        models._fill(p, k)
    return m.to(dt)


def _mk_conv(dt, bias=True, padding_mode="zeros"):
    torch.manual_seed(0)
    m = nn.Conv2d(2, 3, 2, padding=1, bias=bias, padding_mode=padding_mode)
    for k, p in enumerate(m.parameters()):
        models._fill(p, k)
    return m.to(dt)


def _quantize_single(fm, wname, aname):
    from optimum.quanto import quantize

    model = nn.Sequential(copy.deepcopy(fm))
    kw = {"weights": num.qt(wname)}
    if aname:
        kw["activations"] = num.qt(aname)
    quantize(model, **kw)
    return model[0]


def _input(shape, dt, k=0):
    n = 1
    for d in shape:
        n *= d
    i = torch.arange(n, dtype=torch.float64).reshape(shape)
    return (torch.cos(i * 0.31 + k) * (1.0 + (i % 3) * 0.4)).to(dt)


def _twin_forward(qm, fm, x_leaf, aname):
    """Float twin: straight-through (de)quantized input, dequantized quantized weight as a leaf, float functional."""
    from optimum.quanto import QTensor, quantize_activation

    with torch.no_grad():
        wq = qm.qweight
        wdq = wq.dequantize().detach().clone()
    w_leaf = wdq.requires_grad_(True)
    b_leaf = None if qm.bias is None else qm.bias.detach().clone().requires_grad_(True)
    if aname:
        with torch.no_grad():
            xq = quantize_activation(x_leaf.detach(), num.qt(aname), qm.input_scale).dequantize()
        xin = x_leaf + (xq - x_leaf).detach()
    else:
        xin = x_leaf
    if isinstance(fm, nn.Linear):
        y = F.linear(xin, w_leaf, b_leaf)
    else:
        if fm.padding_mode != "zeros":
            xin = F.pad(xin, fm._reversed_padding_repeated_twice, mode=fm.padding_mode)
            y = F.conv2d(xin, w_leaf, b_leaf, fm.stride, (0, 0), fm.dilation, fm.groups)
        else:
            y = F.conv2d(xin, w_leaf, b_leaf, fm.stride, fm.padding, fm.dilation, fm.groups)
    return y, w_leaf, b_leaf


def _cmp(a, b, exact, K, u, what):
    if (a is None) != (b is None):
        return f"{what}: {'missing' if a is None else 'unexpected'} gradient"
    if a is None:
        return None
    if tuple(a.shape) != tuple(b.shape):
        return f"{what}: gradient shape {tuple(a.shape)} != {tuple(b.shape)}"
    a64, b64 = a.detach().to(torch.float64), b.detach().to(torch.float64)
    if exact:
        ok = a64 == b64
    else:
        tol = (K + 4) * u * (b64.abs().max() + 1e-30) * 4 + 4 * u * b64.abs()
        ok = (a64 - b64).abs() <= tol
    if bool(ok.all()):
        return None
    i = tuple((~ok).nonzero()[0].tolist())
    return f"{what}: got {float(a64[i])!r} want {float(b64[i])!r} at {i}"


def _grads_for(shape_out, dt):
    """(name, gradient tensor, exact?)"""
    n = 1
    for d in shape_out:
        n *= d
    out = []
    for j in range(n):
        g = torch.zeros(n, dtype=dt)
        g[j] = 1.0
        out.append((f"onehot{j}", g.reshape(shape_out), True))
    out.append(("ones", torch.ones(shape_out, dtype=dt), False))
    if len(shape_out) >= 2:
        base = _input(tuple(reversed(shape_out)), dt, 5)
        out.append(("noncontig", base.permute(*range(len(shape_out) - 1, -1, -1)), False))
    out.append(("expanded", torch.tensor(0.5, dtype=dt).expand(shape_out), False))
    return out


def _jac_task(task, out):
    from optimum.quanto import QBytesTensor, freeze

    dtname, wname, aname = task["dt"], task["w"], task["a"]
    dt = num.DTYPES[dtname]
    u = num.UNIT[dtname]
    only = task.get("only")
    if task["kind"] == "jac_linear":
        variants = [("lin", shape, bias) for shape in ((6,), (2, 6), (2, 2, 6), (1, 2, 2, 6)) for bias in (True, False)]
    else:
        variants = [("conv", (1, 2, 3, 3), True), ("conv", (2, 2, 2, 3), False), ("conv", (2, 3, 3), True),  # the last one is an un-batched (C,H,W) input
                    ("conv_reflect", (1, 2, 3, 3), True)]
    for mk, xshape, bias in variants:
        if task["a"]:
            _calib_interleaved(task, out, mk, xshape, bias)
        for frozen in (False, True, "reloaded", "eval"):
            # "eval": an unfrozen module switched to eval() mode still trains its float weights (fine-tuning with frozen statistics)
            eval_mode = frozen == "eval"
            frozen = False if eval_mode else frozen
            fm = _mk_linear(dt, bias) if mk == "lin" else _mk_conv(dt, bias, "reflect" if mk == "conv_reflect" else "zeros")
            qm = _quantize_single(fm, wname, aname)
            x0 = _input(xshape, dt)
            if aname:
                qm.input_scale = (x0.abs().max().to(torch.float64) * 0.9 / num.float8.QMAX[aname]).to(dt)
                with torch.no_grad():
                    yy = fm(x0)
                qm.output_scale = (yy.abs().max().to(torch.float64) / num.float8.QMAX[aname]).to(dt)
            if frozen:
                qm.freeze()
            if frozen == "reloaded":
                # a frozen module obtained by loading a frozen state_dict with assign=True into a fresh quantized module
                holder = nn.Sequential(qm)
                sd = holder.state_dict()
                qm2 = _quantize_single(fm, wname, aname)
                nn.Sequential(qm2).load_state_dict(sd, assign=True)
                qm = qm2
            if eval_mode:
                qm.eval()
            K = fm.weight.numel() // fm.weight.shape[0]
            try:
                xt = x0.clone().requires_grad_(True)
                yt, w_leaf, b_leaf = _twin_forward(qm, fm, xt, aname)
                shape_out = tuple(yt.shape)
            except Exception as e:  # noqa
                continue
            for gname, g, exact in _grads_for(shape_out, dt):
                c = [mk, list(xshape), bias, "eval" if eval_mode else frozen, gname]
                if only and only != c:
                    continue
                fields = {"kind": task["kind"], "weights": wname, "activations": aname, "dtype": dtname, "frozen": "eval" if eval_mode else str(frozen), "grad": gname.rstrip("0123456789"), "rank": len(xshape)}
                case = dict(task, only=c)
                journal(repr(case))
                out["evals"] += 1
                out["calls"] += 1
                out["points"] += 1
                out["nontrivial"] += 1
                # reference gradients
                try:
                    xt = x0.clone().requires_grad_(True)
                    yt, w_leaf, b_leaf = _twin_forward(qm, fm, xt, aname)
                    yt.backward(g)
                except Exception:
                    out["counters"]["twin_backward_unsupported"] = out["counters"].get("twin_backward_unsupported", 0) + 1
                    continue
                try:
                    for p in qm.parameters():
                        p.grad = None
                    xq = x0.clone().requires_grad_(True)
                    y = qm(xq)
                    yd = y.dequantize() if isinstance(y, QBytesTensor) else y
                    yd.backward(g)
                except Exception as e:  # noqa
                    out["violations"].append(violation(PID, case, dict(fields, sub="backward_raised"), f"backward_raised: {c} w={wname} a={aname} {dtname}: {type(e).__name__}: {str(e)[:200]}"))
                    continue
                msgs = []
                msgs.append(_cmp(xq.grad, xt.grad, exact and mk != "conv_reflect", K, u, "grad_input"))
                if frozen:
                    from optimum.quanto import QTensor

                    if qm.weight.grad is not None:
                        msgs.append("frozen_weight_grad: a frozen (quantized) weight received a gradient")
                else:
                    msgs.append(_cmp(qm.weight.grad, w_leaf.grad, exact and mk != "conv_reflect", xq.numel() // K if mk == "lin" else xq.numel(), u, "grad_weight"))
                if bias:
                    msgs.append(_cmp(qm.bias.grad, b_leaf.grad, exact, yt.numel(), u, "grad_bias"))
                for sc in (qm.input_scale, qm.output_scale):
                    if getattr(sc, "grad", None) is not None:
                        msgs.append("scale_grad: an activation scale received a gradient")
                for m in msgs:
                    if m:
                        out["violations"].append(violation(PID, case, dict(fields, sub=m.split(":")[0]), f"{m} ({c} w={wname} a={aname} {dtname})"))


def _calib_interleaved(task, out, mk, xshape, bias):
    """Training inside a Calibration context with two forwards of the same module (batches of different range) before the backward
    of the first one (gradient accumulation, a shared module): the gradients of the first forward must be those of the float twin
    evaluated with the activation scale that forward used - whatever the second forward did to the module's scale buffers."""
    from optimum.quanto import Calibration, QBytesTensor

    dtname, wname, aname = task["dt"], task["w"], task["a"]
    dt = num.DTYPES[dtname]
    u = num.UNIT[dtname]
    only = task.get("only")
    for mom in (0.5, 0.9):
        for factor in (8.0, 0.125):
            c = [mk, list(xshape), bias, "calib2", mom, factor]
            if only and only != c:
                continue
            fields = {"kind": task["kind"], "weights": wname, "activations": aname, "dtype": dtname, "frozen": "calib2", "grad": "ones", "rank": len(xshape)}
            case = dict(task, only=c)
            journal(repr(case))
            out["evals"] += 1
            out["calls"] += 2
            out["points"] += 1
            out["nontrivial"] += 1
            fm = _mk_linear(dt, bias) if mk == "lin" else _mk_conv(dt, bias, "reflect" if mk == "conv_reflect" else "zeros")
            qm = _quantize_single(fm, wname, aname)
            x0 = _input(xshape, dt)
            K = fm.weight.numel() // fm.weight.shape[0]
            try:
                xq = x0.clone().requires_grad_(True)
                with Calibration(momentum=mom, streamline=False):
                    y1 = qm(xq)
                    s_in = qm.input_scale.detach().clone()
                    s_keep = (qm.input_scale, qm.output_scale)
                    y2 = qm((x0 * factor).clone().requires_grad_(True))
                    y1d = y1.dequantize() if isinstance(y1, QBytesTensor) else y1
                    g = torch.ones_like(y1d)
                    y1d.backward(g)
                del y2
            except Exception as e:  # noqa
                out["violations"].append(violation(PID, case, dict(fields, sub="backward_raised"), f"backward_raised: {c} w={wname} a={aname} {dtname}: {type(e).__name__}: {str(e)[:200]}"))
                continue
            try:
                after = qm.input_scale
                qm.input_scale = s_in
                xt = x0.clone().requires_grad_(True)
                yt, w_leaf, b_leaf = _twin_forward(qm, fm, xt, aname)
                yt.backward(torch.ones_like(yt))
                qm.input_scale = after
            except Exception:
                out["counters"]["twin_backward_unsupported"] = out["counters"].get("twin_backward_unsupported", 0) + 1
                continue
            msgs = [_cmp(xq.grad, xt.grad, False, K, u, "grad_input"),
                    _cmp(qm.weight.grad, w_leaf.grad, False, xq.numel() // K if mk == "lin" else xq.numel(), u, "grad_weight")]
            if bias:
                msgs.append(_cmp(qm.bias.grad, b_leaf.grad, False, yt.numel(), u, "grad_bias"))
            for m in msgs:
                if m:
                    out["violations"].append(violation(PID, case, dict(fields, sub=m.split(":")[0]), f"{m} (two forwards inside Calibration, backward of the first: {c} w={wname} a={aname} {dtname})"))


def _ladder_task(task, out):
    """Depth ladder of the autograd graph (one module applied T times - time steps / micro-batches - before a single backward)
    and size ladder (inputs that flatten to more than 2^15 / 2^16 rows, not a multiple of any power-of-two block)."""
    from optimum.quanto import QBytesTensor, quantize_activation

    dtname, wname, aname, mk = task["dt"], task["w"], task["a"], task["mk"]
    dt = num.DTYPES[dtname]
    u = num.UNIT[dtname]
    only = task.get("only")

    def twin(qm, fm, xs, gs):
        with torch.no_grad():
            wdq = qm.qweight.dequantize().detach().clone()
        w_leaf = wdq.requires_grad_(True)
        b_leaf = qm.bias.detach().clone().requires_grad_(True)
        leaves = []
        total = 0
        for x, g in zip(xs, gs):
            xl = x.clone().requires_grad_(True)
            leaves.append(xl)
            if aname:
                with torch.no_grad():
                    xq = quantize_activation(xl.detach(), num.qt(aname), qm.input_scale).dequantize()
                xin = xl + (xq - xl).detach()
            else:
                xin = xl
            y = F.linear(xin, w_leaf, b_leaf) if mk == "linear" else F.conv2d(xin, w_leaf, b_leaf, fm.stride, fm.padding, fm.dilation, fm.groups)
            total = total + (y * g).sum()
        total.backward()
        return w_leaf.grad, b_leaf.grad, [l.grad for l in leaves]

    def run(label, xs, gs, exact):
        c = [label]
        if only and only != c:
            return
        fm = _mk_linear(dt, True) if mk == "linear" else _mk_conv(dt, True)
        qm = _quantize_single(fm, wname, aname)
        if aname:
            amax = max(float(x.abs().max()) for x in xs)
            qm.input_scale = torch.tensor(amax * 0.9 / num.float8.QMAX[aname], dtype=dt)
            with torch.no_grad():
                ymax = max(float(fm(x).abs().max()) for x in xs[:4])
            qm.output_scale = torch.tensor(ymax * 1.5 / num.float8.QMAX[aname], dtype=dt)
        fields = {"kind": "ladder", "weights": wname, "activations": aname, "dtype": dtname, "module": mk, "ladder": label.split(":")[0]}
        case = dict(task, only=c)
        journal(repr(case))
        out["evals"] += 1
        out["calls"] += len(xs)
        out["points"] += 1
        out["nontrivial"] += 1
        try:
            wg, bg, xg = twin(qm, fm, xs, gs)
        except Exception:
            out["counters"]["twin_backward_unsupported"] = out["counters"].get("twin_backward_unsupported", 0) + 1
            return
        try:
            leaves = [x.clone().requires_grad_(True) for x in xs]
            total = 0
            for xl, g in zip(leaves, gs):
                y = qm(xl)
                yd = y.dequantize() if isinstance(y, QBytesTensor) else y
                total = total + (yd * g).sum()
            total.backward()
        except Exception as e:  # noqa
            out["violations"].append(violation(PID, case, dict(fields, sub="backward_raised"), f"backward_raised: {label} w={wname} a={aname}: {type(e).__name__}: {str(e)[:200]}"))
            return
        rows = sum(x.numel() for x in xs) // (fm.weight.numel() // fm.weight.shape[0])
        msgs = [_cmp(qm.weight.grad, wg, exact, rows, u, "grad_weight"), _cmp(qm.bias.grad, bg, exact, rows, u, "grad_bias")]
        for i, (a, b) in enumerate(zip(leaves, xg)):
            m = _cmp(a.grad, b, exact, fm.weight.shape[0], u, f"grad_input[{i}]")
            if m:
                msgs.append(m)
                break
        for m in msgs:
            if m:
                out["violations"].append(violation(PID, case, dict(fields, sub=m.split(":")[0].split("[")[0]), f"{m} ({label} w={wname} a={aname} {dtname})"))

    xshape = (2, 6) if mk == "linear" else (1, 2, 3, 3)
    for T in task["steps"]:
        xs = [_input(xshape, dt, k) for k in range(T)]
        with torch.no_grad():
            oshape = tuple((_mk_linear(dt) if mk == "linear" else _mk_conv(dt))(xs[0]).shape)
        gs = [_input(oshape, dt, 100 + k) for k in range(T)]
        run(f"steps:{T}", xs, gs, False)
    if mk == "linear":
        for rows in task["rows"]:
            x = _input((rows, 6), dt, 3)
            g1 = torch.zeros((rows, 4), dtype=dt)
            g1[-1, 1] = 1.0  # only the last row contributes: every weight-gradient entry is a single product
            run(f"rows:{rows}:last", [x], [g1], True)
            run(f"rows:{rows}:all", [x], [_input((rows, 4), dt, 9)], False)
            x3 = _input((5, rows // 5 + 1, 6), dt, 4)
            run(f"rows3d:{rows}", [x3], [_input((5, rows // 5 + 1, 4), dt, 7)], False)


# ---------------------------------------------------------------------------------------
# histories
# ---------------------------------------------------------------------------------------
EVENTS = ["fb", "fwd_nograd", "sgd_data", "sgd_inplace", "sgd_optim", "zero_grad", "freeze"]


class HSt:
    def __init__(self, cfg):
        dt = num.DTYPES[cfg["dt"]]
        self.cfg = cfg
        self.fm = _mk_linear(dt) if cfg["mk"] == "linear" else _mk_conv(dt)
        self.qm = _quantize_single(self.fm, cfg["w"], cfg["a"])
        self.x = _input((2, 6) if cfg["mk"] == "linear" else (1, 2, 3, 3), dt)
        if cfg["a"]:
            self.qm.input_scale = (self.x.abs().max().to(torch.float64) / num.float8.QMAX[cfg["a"]]).to(dt)
            self.qm.output_scale = torch.tensor(0.05, dtype=dt)
        self.opt = None
        self.frozen = False


def _h_apply(st, ev):
    from optimum.quanto import QBytesTensor

    qm = st.qm
    if ev == "fb":
        y = qm(st.x.clone().requires_grad_(True))
        yd = y.dequantize() if isinstance(y, QBytesTensor) else y
        yd.backward(torch.ones_like(yd))
    elif ev == "fwd_nograd":
        with torch.no_grad():
            qm(st.x)
    elif ev in ("sgd_data", "sgd_inplace", "sgd_optim"):
        ps = [p for p in qm.parameters() if p.grad is not None and not st.frozen]
        if ev == "sgd_data":
            for p in ps:
                p.data.add_(p.grad.data, alpha=-0.1)
        elif ev == "sgd_inplace":
            with torch.no_grad():
                for p in ps:
                    p.add_(p.grad, alpha=-0.1)
        else:
            if ps:
                torch.optim.SGD(ps, lr=0.1).step()
    elif ev == "zero_grad":
        qm.zero_grad(set_to_none=True)
    elif ev == "freeze":
        qm.freeze()
        st.frozen = True
    # every event ends with the observation the oracle makes (a forward under no_grad), so that replayed histories
    # carry the same hidden state as the checked ones
    with torch.no_grad():
        qm(st.x)
    return st


def _h_key(st):
    g = [None if p.grad is None else lifecycle.tensor_bytes(p.grad) for p in st.qm.parameters()]
    return (lifecycle.model_hash(nn.Sequential(st.qm)), repr(g), st.frozen)


def _fresh_forward(st):
    """forward of a module rebuilt from the *current* float weights (or the current frozen weights)"""
    from optimum.quanto import QBytesTensor

    qm = st.qm
    with torch.no_grad():
        if st.frozen:
            ref = copy.deepcopy(qm)
        else:
            fm2 = copy.deepcopy(st.fm)
            fm2.weight.copy_(qm.weight.detach())
            if qm.bias is not None:
                fm2.bias.copy_(qm.bias.detach())
            ref = _quantize_single(fm2, st.cfg["w"], st.cfg["a"])
            ref.input_scale = qm.input_scale.detach().clone()
            ref.output_scale = qm.output_scale.detach().clone()
        return lifecycle.out_bytes(ref(st.x))


def _hist_task(task, out):
    cfg = {k: task[k] for k in ("dt", "w", "a", "mk")}
    depth = 4 if task["tier"] == "quick" else 5
    only = task.get("only")

    def on_transition(hist, ev, st):
        case = dict(task, only=[hist, ev])
        fields = {"kind": "hist", "weights": cfg["w"], "activations": cfg["a"], "module": cfg["mk"], "event": ev}
        journal(repr(case))
        out["nontrivial"] += 1
        try:
            st = _h_apply(st, ev)
        except Exception as e:  # noqa
            out["violations"].append(violation(PID, case, dict(fields, sub="event_raised"), f"event_raised: {ev} after {hist}: {type(e).__name__}: {str(e)[:200]} ({cfg})"))
            return None
        try:
            with torch.no_grad():
                got = lifecycle.out_bytes(st.qm(st.x))
            want = _fresh_forward(st)
        except Exception as e:  # noqa
            out["violations"].append(violation(PID, case, dict(fields, sub="forward_raised"), f"forward_raised: after {hist + [ev]}: {type(e).__name__}: {str(e)[:200]} ({cfg})"))
            return None
        if got != want:
            out["violations"].append(violation(PID, case, dict(fields, sub="stale_forward"), f"stale_forward: after {hist + [ev]} the forward does not reflect the current weights ({cfg})"))
        if st.frozen and st.qm.weight.grad is not None:
            out["violations"].append(violation(PID, case, dict(fields, sub="frozen_weight_grad"), f"frozen_weight_grad: frozen weight holds a gradient after {hist + [ev]} ({cfg})"))
        return st

    on_transition.apply = _h_apply
    if only is not None:
        # replay exactly one transition
        st = HSt(cfg)
        for e in only[0]:
            st = _h_apply(st, e)
        on_transition(list(only[0]), only[1], st)
        return
    if task.get("long"):
        # depth ladder: fixed long histories (many optimizer steps / forwards / freezes in a row)
        res = lifecycle.long_paths(lambda: HSt(cfg), lambda st: EVENTS, on_transition, task["long"], 3 if task["tier"] == "quick" else 6)
        out["counters"]["long_steps"] = res["long_steps"]
    else:
        res = lifecycle.bfs_local(lambda: HSt(cfg), lambda st: EVENTS, _h_apply, _h_key, on_transition, depth, max_states=4000)
    out["evals"] += res["transitions"]
    out["calls"] += res["transitions"]
    out["points"] += res["states"]
    if not task.get("long"):
        out["counters"]["hist_states"] = res["states"]
        out["counters"]["hist_saturated"] = int(res["frontier_emptied"])
    if cfg == {"dt": "float32", "w": "qint8", "a": "qint8", "mk": "linear"}:
        out["samples"] += [{"config": cfg, "history": h} for h in res["samples"]]


def _run(task):
    out = {"evals": 0, "nontrivial": 0, "points": 0, "calls": 0, "violations": [], "samples": [], "counters": {}}
    if task["kind"] == "hist":
        _hist_task(task, out)
    elif task["kind"] == "ladder":
        _ladder_task(task, out)
    else:
        _jac_task(task, out)
    return out


def run_task(task):
    out = _run(task)
    out["nviol"] = len(out["violations"])
    seen = {}
    for v in out["violations"]:
        seen.setdefault(str(sorted(v["fields"].items())), v)
    out["violations"] = list(seen.values())[:60]
    out["counters"][task["kind"] + "_cases"] = out["evals"]
    if task["kind"] == "jac_linear" and task["w"] == "qint4" and task["a"] == "qint8" and task["dt"] == "float32":
        out["samples"].append({"module": "QLinear(6,4)", "input_shape": [2, 2, 6], "weights": "qint4", "activations": "qint8", "upstream_gradient": "one-hot basis (16 columns), ones, transposed, expanded"})
    return out


def crash_violation(task, info):
    return [violation(PID, dict(task), {"kind": task["kind"], "sub": "worker_crash"}, f"worker_crash: signal {info.get('signal')} at {info.get('journal')}")]


def replay_task(case):
    return _run(case)["violations"]


def coverage(agg, tier, tasks):
    from ..pool import HarnessError

    for k in ("jac_linear_cases", "jac_conv_cases", "hist_cases", "ladder_cases"):
        if agg.counters.get(k, 0) == 0:
            raise HarnessError(f"vacuity guard: {k} == 0")
    return {
        "rule": RULE,
        "states": agg.points,
        "transitions": agg.calls,
        "traces_validated_against_impl": agg.calls,
        "exhaustive": True,
        "counters": dict(sorted(agg.counters.items())),
    }
