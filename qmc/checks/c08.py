"""C08 - quantize() swaps exactly the eligible modules and each computes its float twin (E1)."""
import copy
import itertools

import torch
import torch.nn as nn
import torch.nn.functional as F

from .. import num
from ..pool import journal
from ..report import violation

PID = "C08"
LEVEL = "model_checking"
RULE = (
    "structure: every module tree over containers {Sequential, attribute Module, ModuleList, ModuleDict} and leaves {Linear, Conv2d, LayerNorm, ReLU, Embedding, "
    "BatchNorm2d, Identity}: single leaf, one container with 1..3 leaves (7^k), and two-level nestings (leaves {Linear,Conv2d,LayerNorm,ReLU}); x modules filter {None, every subset of the "
    "eligible modules, a non-eligible module} x weights {qint8,qint4} x activations {None,qint8} x dtype {f32,f16}; behaviour: Linear in/out {1,3,16,48,160,256} x bias; Conv2d kernel x stride x "
    "padding (ints, tuples, 'same', 'valid') x dilation x groups x padding_mode x bias (combinations torch rejects are skipped); LayerNorm normalized_shape x affine x bias x eps {1e-5,1e-3,1e-12} x {unit, low-variance} inputs; x 6 weight qtypes x "
    "activations {None,qint8,e4m3,e5m2} x dtypes x {float input, already quantized input} x 2 batch shapes. Non-trivial = trees with at least one eligible module / behaviour cases with a non-zero output."
)
ASSUMPTIONS = [
    "trees only: a module instance aliased under two names is outside the quantifier",
    "behaviour oracle: float functional on qweight.dequantize() and the (de)quantized input, forward error bound (K*2^-24+4u)*(|x|.|w|+|b|)+2u|ref|; module output codes must be bit-identical to quantize_activation(qforward(x), output_scale)",
    "an eligible root module cannot be replaced in place by Python semantics: recorded as known finding when it occurs",
]

LEAVES = ["Linear", "Conv2d", "LayerNorm", "ReLU", "Embedding", "BatchNorm2d", "Identity"]
DEEP_LEAVES = ["Linear", "Conv2d", "LayerNorm", "ReLU"]
CONTAINERS = ["Sequential", "Attr", "ModuleList", "ModuleDict"]
WQ = ["qint8", "qfloat8", "qfloat8_e4m3fn", "qfloat8_e5m2", "qint4", "qint2"]


class TaggedLinear(nn.Linear):
    """a user subclass that changes nothing (e.g. carries a tag for a later pass)"""


class TaggedConv2d(nn.Conv2d):
    pass


class Attr(nn.Module):
    def __init__(self, children):
        super().__init__()
        for i, c in enumerate(children):
            setattr(self, f"m{i}", c)


def _leaf(kind, dt):
    torch.manual_seed(0)
    m = {
        "Linear": lambda: nn.Linear(4, 3),
        "SubLinear": lambda: TaggedLinear(4, 3),
        "NDQLinear": lambda: nn.modules.linear.NonDynamicallyQuantizableLinear(4, 3),
        "SubConv2d": lambda: TaggedConv2d(2, 3, 2, stride=(2, 1), padding=1),
        "Conv2d": lambda: nn.Conv2d(2, 3, 2, stride=(2, 1), padding=1),
        "LayerNorm": lambda: nn.LayerNorm(4),
        "ReLU": lambda: nn.ReLU(),
        "Embedding": lambda: nn.Embedding(5, 4),
        "BatchNorm2d": lambda: nn.BatchNorm2d(3),
        "Identity": lambda: nn.Identity(),
    }[kind]()
    return m.to(dt)


def _build(tree, dt):
    """tree: str leaf | (container, [subtrees])"""
    if isinstance(tree, str):
        return _leaf(tree, dt)
    kind, subs = tree
    kids = [_build(s, dt) for s in subs]
    if kind == "Sequential":
        return nn.Sequential(*kids)
    if kind == "Attr":
        return Attr(kids)
    if kind == "ModuleList":
        return nn.ModuleList(kids)
    return nn.ModuleDict({f"k{i}": k for i, k in enumerate(kids)})


SUB_LEAVES = ["SubLinear", "NDQLinear", "SubConv2d"]


def _trees():
    out = [leaf for leaf in LEAVES]
    # instances of subclasses of the eligible classes are Linear / Conv2d modules too
    for leaf in SUB_LEAVES:
        out.append(("Sequential", [leaf]))
        out.append(("Attr", [leaf, "ReLU"]))
        out.append(("ModuleDict", [("Sequential", [leaf, "LayerNorm"]), "Linear"]))
    for c in CONTAINERS:
        for k in (1, 2, 3):
            for ls in itertools.product(LEAVES, repeat=k):
                out.append((c, list(ls)))
    for outer in CONTAINERS:
        for inner in CONTAINERS:
            for k in (1, 2):
                for ls in itertools.product(DEEP_LEAVES, repeat=k):
                    for extra in [None] + DEEP_LEAVES:
                        subs = [(inner, list(ls))] + ([extra] if extra else [])
                        out.append((outer, subs))
    return out


def plan(tier, seed):
    trees = _trees()
    tasks = []
    CH = 100
    for lo in range(0, len(trees), CH):
        tasks.append({"kind": "structure", "lo": lo, "hi": min(len(trees), lo + CH)})
    for dt in ("float32", "float16", "bfloat16"):
        for w in WQ:
            tasks.append({"kind": "linear", "dt": dt, "w": w})
            tasks.append({"kind": "conv", "dt": dt, "w": w, "tier": tier})
        tasks.append({"kind": "layernorm", "dt": dt})
    return tasks


def _eligible(m, activations):
    if isinstance(m, nn.Linear):
        return "QLinear"
    if isinstance(m, nn.Conv2d):
        return "QConv2d"
    if isinstance(m, nn.LayerNorm) and activations is not None:
        return "QLayerNorm"
    return None


HYPER = {
    "Linear": ["in_features", "out_features"],
    "TaggedLinear": ["in_features", "out_features"],
    "NonDynamicallyQuantizableLinear": ["in_features", "out_features"],
    "TaggedConv2d": ["in_channels", "out_channels", "kernel_size", "stride", "padding", "dilation", "groups", "padding_mode"],
    "Conv2d": ["in_channels", "out_channels", "kernel_size", "stride", "padding", "dilation", "groups", "padding_mode"],
    "LayerNorm": ["normalized_shape", "eps", "elementwise_affine"],
}


def _tied_cases(task, out):
    """Weight tying: an Embedding (never swapped) or a Linear excluded by the filter shares its Parameter with a swapped Linear."""
    from optimum.quanto import quantize

    for variant in ("embedding", "filtered_linear"):
        for wname in ("qint8", "qint4"):
            for aname in (None, "qint8"):
                c = ["tied", variant, wname, aname]
                if task.get("only") and task["only"] != c:
                    continue
                torch.manual_seed(0)
                if variant == "embedding":
                    other = nn.Embedding(12, 8)
                    head = nn.Linear(8, 12, bias=False)
                    head.weight = other.weight
                    model = nn.ModuleDict({"other": other, "head": head})
                    sel = None
                else:
                    other = nn.Linear(8, 8, bias=False)
                    head = nn.Linear(8, 8, bias=False)
                    head.weight = other.weight
                    model = nn.ModuleDict({"other": other, "head": head})
                    sel = [head]
                before = other.weight.detach().clone()
                fields = {"kind": "structure", "weights": wname, "activations": aname, "dtype": "float32", "filtered": sel is not None, "root_eligible": False, "tied": variant}
                case = dict(task, only=c)
                out["evals"] += 1
                out["calls"] += 1
                out["points"] += 1
                out["nontrivial"] += 1
                kw = {"weights": num.qt(wname)}
                if aname:
                    kw["activations"] = num.qt(aname)
                try:
                    quantize(model, modules=sel, **kw)
                    same_obj = model["other"] is other
                    w = model["other"].weight
                    ok = same_obj and w is not None and tuple(w.shape) == tuple(before.shape) and num.same_bits(w.detach(), before)
                except Exception as e:  # noqa
                    out["violations"].append(violation(PID, case, dict(fields, sub="raised"), f"raised: quantize() of a model with tied weights ({variant}): {type(e).__name__}: {e}"))
                    continue
                if not ok:
                    out["violations"].append(violation(PID, case, dict(fields, sub="touched_unselected"), f"touched_unselected: quantize() altered the parameters of the untouched module sharing its weight with a quantized Linear ({variant}, {wname}, {aname})"))


def _structure_task(task, out):
    from optimum.quanto import QModuleMixin, quantize

    if task["lo"] == 0:
        _tied_cases(task, out)
    if task.get("only") and task["only"][0] == "tied":
        return

    trees = _trees()[task["lo"]:task["hi"]]
    only = task.get("only")
    for ti, tree in enumerate(trees):
        for dtname in ("float32", "float16"):
            dt = num.DTYPES[dtname]
            for wname in ("qint8", "qint4"):
                for aname in (None, "qint8"):
                    probe = _build(tree, dt)
                    names = [n for n, _ in probe.named_modules()]
                    elig = [n for n, m in probe.named_modules() if _eligible(m, aname)]
                    non_elig = [n for n, m in probe.named_modules() if not _eligible(m, aname) and n != ""]
                    filters = [None] + [list(s) for k in range(0, len(elig) + 1) for s in itertools.combinations(elig, k)]
                    if non_elig:
                        filters.append([non_elig[0]])
                    # the first trees are also quantized twice (the second call, with another configuration, must win everywhere)
                    variants = [(f, False) for f in filters] + ([(None, True)] if (task["lo"] + ti < 120 and not isinstance(tree, str)) else [])
                    for flt, twice in variants:
                        c = [task["lo"] + ti, dtname, wname, aname, flt] + (["twice"] if twice else [])
                        if only and only != c:
                            continue
                        model = _build(tree, dt)
                        before = dict(model.named_modules())
                        params = {n: (m.weight.detach().clone() if getattr(m, "weight", None) is not None else None,
                                      m.bias.detach().clone() if getattr(m, "bias", None) is not None else None) for n, m in before.items()}
                        sel = None if flt is None else [before[n] for n in flt]
                        root_eligible = _eligible(model, aname) is not None and (flt is None or "" in flt)
                        fields = {"kind": "structure", "weights": wname, "activations": aname, "dtype": dtname, "filtered": flt is not None, "root_eligible": root_eligible, "twice": twice}
                        case = dict(task, only=c)
                        out["evals"] += 1
                        out["calls"] += 1
                        out["points"] += 1
                        if elig:
                            out["nontrivial"] += 1
                        kw = {"weights": num.qt(wname)}
                        if aname:
                            kw["activations"] = num.qt(aname)
                        try:
                            if twice:
                                quantize(model, weights=num.qt("qint4" if wname == "qint8" else "qint8"))
                            quantize(model, modules=sel, **kw)
                        except Exception as e:  # noqa
                            out["violations"].append(violation(PID, case, dict(fields, sub="raised"), f"raised: quantize() of tree {tree} filter {flt}: {type(e).__name__}: {e}"))
                            continue
                        after_names = [n for n, _ in model.named_modules()]
                        after = dict(model.named_modules())
                        if after_names != names:
                            out["violations"].append(violation(PID, case, dict(fields, sub="names_changed"), f"names_changed: named_modules() changed from {names} to {after_names} for tree {tree} filter {flt}"))
                            continue
                        for n in names:
                            old, new = before[n], after[n]
                            want = _eligible(old, aname) if (flt is None or n in flt) else None
                            if want is None:
                                if new is not old:
                                    out["violations"].append(violation(PID, case, dict(fields, sub="touched_unselected"), f"touched_unselected: module '{n}' ({type(old).__name__}) was replaced by {type(new).__name__} (tree {tree} filter {flt})"))
                                else:
                                    w0, b0 = params[n]
                                    if w0 is not None and (getattr(new, "weight", None) is None or not num.same_bits(new.weight.detach(), w0)):
                                        out["violations"].append(violation(PID, case, dict(fields, sub="touched_unselected"), f"touched_unselected: parameters of untouched module '{n}' changed"))
                                continue
                            if type(new).__name__ != want or not isinstance(new, QModuleMixin):
                                out["violations"].append(violation(PID, case, dict(fields, sub="not_swapped"), f"not_swapped: module '{n}' ({type(old).__name__}) is a {type(new).__name__}, expected {want} (tree {tree} filter {flt} activations {aname})"))
                                continue
                            w0, b0 = params[n]
                            bad = []
                            if w0 is not None and not (type(new.weight.data) is torch.Tensor and num.same_bits(new.weight.detach(), w0)):
                                bad.append("weight")
                            if b0 is not None and not num.same_bits(new.bias.detach(), b0):
                                bad.append("bias")
                            if (b0 is None) != (new.bias is None):
                                bad.append("bias presence")
                            for h in HYPER[type(old).__name__]:
                                if getattr(new, h) != getattr(old, h):
                                    bad.append(h)
                            if w0 is not None and new.weight.dtype != dt:
                                bad.append("dtype")
                            if getattr(new, "name", None) != n:
                                bad.append(f"name={getattr(new, 'name', None)!r}")
                            wq_want = None if want == "QLayerNorm" else wname
                            if (new.weight_qtype.name if new.weight_qtype else None) != wq_want or (new.activation_qtype.name if new.activation_qtype else None) != aname:
                                bad.append("qtypes")
                            if bad:
                                out["violations"].append(violation(PID, case, dict(fields, sub="twin_differs"), f"twin_differs: quantized twin of '{n}' differs in {bad} (tree {tree} filter {flt})"))


# ---------------------------------------------------------------------------------------
def _fill(p, k=0):
    with torch.no_grad():
        i = torch.arange(p.numel(), dtype=torch.float64).reshape(p.shape)
        p.copy_((torch.sin(i * 0.7 + k) * (0.6 + (i % 5) * 0.1)).to(p.dtype))


def _input(shape, dt, k=0):
    n = 1
    for d in shape:
        n *= d
    i = torch.arange(n, dtype=torch.float64).reshape(shape)
    return (torch.cos(i * 0.31 + k) * (1.0 + (i % 3) * 0.4)).to(dt)


def _behaviour(fm, x, wname, aname, dtname, qinput, label, case, fields, out, K):
    """fm: float module (already filled). Compare the quantized twin with the float functional."""
    from optimum.quanto import QBytesTensor, quantize, quantize_activation

    dt = num.DTYPES[dtname]
    model = nn.Sequential(copy.deepcopy(fm))
    kw = {"weights": num.qt(wname)} if wname else {}
    if aname:
        kw["activations"] = num.qt(aname)
    out["evals"] += 1
    out["calls"] += 1
    out["points"] += 1
    out["nontrivial"] += 1
    journal(repr(case))
    try:
        quantize(model, **kw)
        qm = model[0]
        if aname:
            qmax = num.float8.QMAX[aname]
            qm.input_scale = (x.abs().max().to(torch.float64) / qmax).to(dt)
        xin = x
        if qinput:
            xin = quantize_activation(x, num.qt(aname or "qint8"), (x.abs().max().to(torch.float64) * 1.25 / num.float8.QMAX[aname or "qint8"]).to(dt))
        with torch.no_grad():
            # reference: float module with the dequantized quantized weight on the (de)quantized input
            ref_m = copy.deepcopy(fm)
            if wname:
                ref_m.weight.copy_(qm.qweight.dequantize())
            if isinstance(xin, QBytesTensor):
                xr = xin.dequantize()
            elif aname and not isinstance(fm, nn.LayerNorm):
                xr = quantize_activation(x, num.qt(aname), qm.input_scale).dequantize()
            else:
                xr = x
            ref = ref_m(xr)
            raw = qm.qforward(xin)
            rawv = raw.dequantize() if isinstance(raw, QBytesTensor) else raw
            if aname:
                qm.output_scale = (ref.abs().max().to(torch.float64) / num.float8.QMAX[aname]).to(dt)
            y = qm(xin)
    except Exception as e:  # noqa
        out["violations"].append(violation(PID, case, dict(fields, sub="raised"), f"raised: {label}: {type(e).__name__}: {str(e)[:200]}"))
        return
    if tuple(rawv.shape) != tuple(ref.shape) or rawv.dtype != ref.dtype:
        out["violations"].append(violation(PID, case, dict(fields, sub="shape"), f"shape: {label}: qforward gives {rawv.dtype}{tuple(rawv.shape)}, float twin {ref.dtype}{tuple(ref.shape)}"))
        return
    u = num.UNIT[dtname]
    r64 = ref.to(torch.float64)
    mag = float(xr.to(torch.float64).abs().max()) * float(ref_m.weight.detach().to(torch.float64).abs().max() if getattr(ref_m, "weight", None) is not None else 1.0) * K
    if isinstance(fm, nn.LayerNorm):
        mag = float(r64.abs().max()) * 4 + 1
    tol = (K * 2.0**-24 + 4 * u) * (mag + (float(ref_m.bias.detach().abs().max()) if getattr(ref_m, "bias", None) is not None else 0.0)) + 2 * u * r64.abs() + 4 * num.QSUB[dtname]
    d = (rawv.to(torch.float64) - r64).abs()
    if not bool(torch.isfinite(rawv).all()) and bool(torch.isfinite(ref).all()):
        out["violations"].append(violation(PID, case, dict(fields, sub="nonfinite"), f"nonfinite: {label}: qforward is not finite although the float twin is"))
        return
    if bool((d > tol).any()):
        i = tuple((d > tol).nonzero()[0].tolist())
        out["violations"].append(violation(PID, case, dict(fields, sub="values"), f"values: {label}: qforward {float(rawv[i])!r} vs float twin {float(ref[i])!r} at {i} (tolerance {float(tol[i]) if tol.ndim else float(tol)!r})"))
    if aname:
        if not isinstance(y, QBytesTensor) or y.qtype.name != aname or y.axis is not None:
            out["violations"].append(violation(PID, case, dict(fields, sub="output_not_quantized"), f"output_not_quantized: {label}: module output is {type(y).__name__}"))
        else:
            want = quantize_activation(rawv, num.qt(aname), qm.output_scale)
            if not (num.same_bits(y._data, want._data) and num.same_bits(y._scale.reshape(()), want._scale.reshape(()))):
                out["violations"].append(violation(PID, case, dict(fields, sub="output_codes"), f"output_codes: {label}: module output codes differ from quantize_activation(qforward(x), output_scale)"))
    else:
        if isinstance(y, QBytesTensor) or not num.same_bits(y, rawv):
            out["violations"].append(violation(PID, case, dict(fields, sub="output_codes"), f"output_codes: {label}: without activation quantization the module output must be qforward(x)"))


ACTS = [None, "qint8", "qfloat8_e4m3fn", "qfloat8_e5m2"]


def _linear_task(task, out):
    dtname, wname = task["dt"], task["w"]
    dt = num.DTYPES[dtname]
    only = task.get("only")
    for fin, fout in itertools.product((1, 3, 16, 48, 160, 256), repeat=2):
        if fin * fout > 160 * 160:
            continue
        for bias in (True, False):
            fm = nn.Linear(fin, fout, bias=bias).to(dt)
            _fill(fm.weight)
            if bias:
                _fill(fm.bias, 3)
            for aname in ACTS:
                for qinput in (False, True):
                    for bshape, amp in (((2,), 1.0), ((2, 3), 1.0), ((2,), 700.0)):
                        c = [fin, fout, bias, aname, qinput, list(bshape), amp]
                        if only and only != c:
                            continue
                        x = (_input(bshape + (fin,), dt).to(torch.float64) * amp).to(dt)
                        with torch.no_grad():
                            if not bool(torch.isfinite(fm(x)).all()):
                                continue  # the float module itself overflows
                        fields = {"kind": "linear", "weights": wname, "activations": aname, "dtype": dtname, "qinput": qinput}
                        _behaviour(fm, x, wname, aname, dtname, qinput, f"Linear({fin},{fout},bias={bias}) w={wname} a={aname} {dtname} qinput={qinput} batch={bshape}", dict(task, only=c), fields, out, fin)


def _conv_task(task, out):
    dtname, wname, tier = task["dt"], task["w"], task["tier"]
    dt = num.DTYPES[dtname]
    only = task.get("only")
    cin = 4
    acts = ACTS if tier == "thorough" else [None, "qint8", "qfloat8_e4m3fn"]
    for kernel, stride, padding, dilation, groups, pmode, bias in itertools.product(
        (1, 3, (2, 3)), (1, 2, (2, 1)), (0, 1, (1, 2), "same", "valid"), (1, 2), (1, 2, cin), ("zeros", "reflect", "replicate", "circular"), (True, False)
    ):
        if tier == "quick" and dtname != "float32" and (dilation != 1 or pmode in ("reflect", "replicate") or stride == 2):
            continue  # quick tier: the full hyper-parameter product runs in float32, a sub-product in the half precisions
        try:
            fm = nn.Conv2d(cin, 2 * groups if groups != cin else cin, kernel, stride=stride, padding=padding, dilation=dilation, groups=groups, bias=bias, padding_mode=pmode).to(dt)
            _fill(fm.weight)
            if bias:
                _fill(fm.bias, 3)
            x0 = _input((2, cin, 7, 6), dt)
            with torch.no_grad():
                fm(x0)
        except Exception:
            out["counters"]["conv_rejected_by_torch"] = out["counters"].get("conv_rejected_by_torch", 0) + 1
            continue
        K = (cin // groups) * fm.kernel_size[0] * fm.kernel_size[1]
        for aname in acts:
            for qinput in (False, True):
                if qinput and tier == "quick" and pmode == "zeros" and dilation == 2:
                    pass
                c = [kernel if isinstance(kernel, int) else list(kernel), stride if isinstance(stride, int) else list(stride),
                     padding if not isinstance(padding, tuple) else list(padding), dilation, groups, pmode, bias, aname, qinput]
                if only and only != c:
                    continue
                fields = {"kind": "conv", "weights": wname, "activations": aname, "dtype": dtname, "qinput": qinput, "padding_mode": pmode}
                _behaviour(fm, x0, wname, aname, dtname, qinput, f"Conv2d{tuple(c[:7])} w={wname} a={aname} {dtname} qinput={qinput}", dict(task, only=c), fields, out, K)


def _layernorm_task(task, out):
    dtname = task["dt"]
    dt = num.DTYPES[dtname]
    only = task.get("only")
    for nshape, affine, bias, eps in itertools.product(((6,), (3, 6)), (True, False), (True, False), (1e-5, 1e-3, 1e-12)):
        try:
            fm = nn.LayerNorm(nshape, eps=eps, elementwise_affine=affine, bias=bias).to(dt)
        except TypeError:
            continue
        if affine:
            _fill(fm.weight)
            if bias:
                _fill(fm.bias, 2)
        for aname in num.Q8:
            for qinput in (False, True):
                for bshape, amp in (((2,), 1.0), ((2, 2), 1.0), ((2,), 0.01)):
                    c = [list(nshape), affine, bias, eps, aname, qinput, list(bshape), amp]
                    if only and only != c:
                        continue
                    # amp 0.01: low-variance rows, where the value of eps matters
                    x = (_input(bshape + ((3, 6) if len(nshape) == 2 else (6,)), dt).to(torch.float64) * amp).to(dt)
                    fields = {"kind": "layernorm", "activations": aname, "dtype": dtname, "qinput": qinput, "affine": affine}
                    _behaviour(fm, x, None, aname, dtname, qinput, f"LayerNorm({nshape},eps={eps},affine={affine},bias={bias}) a={aname} {dtname} qinput={qinput} amp={amp}", dict(task, only=c), fields, out, nshape[-1])


def _run(task):
    out = {"evals": 0, "nontrivial": 0, "points": 0, "calls": 0, "violations": [], "samples": [], "counters": {}}
    {"structure": _structure_task, "linear": _linear_task, "conv": _conv_task, "layernorm": _layernorm_task}[task["kind"]](task, out)
    return out


def run_task(task):
    out = _run(task)
    out["nviol"] = len(out["violations"])
    seen = {}
    for v in out["violations"]:
        seen.setdefault(str(sorted(v["fields"].items())), v)
    out["violations"] = list(seen.values())[:80]
    out["counters"][task["kind"] + "_cases"] = out["evals"]
    if task["kind"] == "structure" and task["lo"] == 0:
        out["samples"].append({"tree": ["Attr", [["ModuleList", ["Linear", "LayerNorm"]], "Conv2d"]], "modules_filter": ["m0.0"], "weights": "qint4", "activations": "qint8"})
    if task["kind"] == "conv" and task["w"] == "qint8" and task["dt"] == "float32":
        out["samples"].append({"module": "Conv2d(4,4,kernel=(2,3),stride=(2,1),padding='same' is rejected by torch; padding=(1,2),dilation=2,groups=2,padding_mode='circular')", "activations": "qint8", "input": "already quantized"})
    return out


def crash_violation(task, info):
    return [violation(PID, dict(task), {"kind": task["kind"], "sub": "worker_crash"}, f"worker_crash: signal {info.get('signal')} during {info.get('journal')}")]


def replay_task(case):
    return _run(case)["violations"]


def coverage(agg, tier, tasks):
    from ..pool import HarnessError

    for k in ("structure_cases", "linear_cases", "conv_cases", "layernorm_cases"):
        if agg.counters.get(k, 0) == 0:
            raise HarnessError(f"vacuity guard: {k} == 0")
    return {
        "rule": RULE,
        "states": agg.points,
        "transitions": agg.calls,
        "traces_validated_against_impl": agg.calls,
        "exhaustive": True,
        "counters": dict(sorted(agg.counters.items())),
        "module_trees": len(_trees()),
    }
