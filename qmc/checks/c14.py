"""C14 - configurations are either rejected with ValueError or fully honoured (E1, full product)."""
import itertools

import torch

from .. import num, wq
from ..report import violation
from . import c01, c03

PID = "C14"
LEVEL = "model_checking"
ALLQ = ["qint8", "qfloat8", "qfloat8_e4m3fn", "qfloat8_e5m2", "qint4", "qint2"]
Q8A = ["qint8", "qfloat8", "qfloat8_e4m3fn", "qfloat8_e5m2"]
RULE = (
    "quantize_weight: qtype(6) x axis{None,-2,-1,0,1,2} x group_size{None,1..2*numel} x optimizer{None,Absmax,Max,foreign} x shapes "
    "(rank 1..3 dims{1,2,3,4}, rank 4 dims{1,2}); quantize_activation / SymmetricQuantizer.apply: 8-bit qtypes x axis{None,-2..3} x 12 "
    "scale shapes; AffineQuantizer.apply: qtype(6) x axis x group_size x 9 scale/zeropoint shapes; automatic group size: every in_features "
    "1..8192 (QLinear) and every in_channels/groups x kh x kw (channels 1..64 quick 1..24, kernels 1..7 quick 1..5) for QConv2d x {qint4,qint2} through the "
    "real constructors, forward run for every per-output count <=512 and one per (count mod 128, group size) class. Outcome must be "
    "ValueError or a tensor passing the C06 invariant and C01-C03 oracles for exactly the requested configuration. Non-trivial = configurations "
    "that are accepted (each is judged by the numeric oracles) plus rejected ones with a distinct reason."
)
ASSUMPTIONS = [
    "a configuration accepted by the library is judged with the same oracles as C01-C03/C06; a rejected one only by its exception type",
    "group_size 0 / negative and non-tensor arguments are outside the quantifier",
]


class _Foreign:
    def __call__(self, *a, **k):
        raise AssertionError("foreign optimizer must not be called")


def _shapes():
    for rank in (1, 2, 3):
        for s in itertools.product((1, 2, 3, 4), repeat=rank):
            yield s
    for s in itertools.product((1, 2), repeat=4):
        yield s


def plan(tier, seed):
    tasks = []
    shapes = list(_shapes())
    for i in range(0, len(shapes), 5):
        tasks.append({"kind": "qw", "lo": i, "hi": min(len(shapes), i + 5)})
    for q in Q8A:
        tasks.append({"kind": "sym", "q": q})
    for q in ALLQ:
        tasks.append({"kind": "aff", "q": q})
    hi = 8192
    for lo in range(1, hi + 1, 512):
        tasks.append({"kind": "gs_linear", "lo": lo, "hi": min(hi + 1, lo + 512)})
    tasks.insert(0, {"kind": "large"})
    if tier == "thorough":
        tasks.insert(1, {"kind": "large", "huge": True})
    cmax = 24 if tier == "quick" else 64
    for c in range(1, cmax + 1, 4):
        tasks.append({"kind": "gs_conv", "clo": c, "chi": min(cmax + 1, c + 4), "kmax": 5 if tier == "quick" else 7})
    return tasks


def _values(shape, dt):
    n = 1
    for d in shape:
        n *= d
    v = ((torch.arange(n, dtype=torch.float64) * 7) % 13 - 6) / 4 + torch.arange(n, dtype=torch.float64) * 0.01
    return v.reshape(shape).to(dt)


def _judge_qbytes(x, q, qname, axis_req, dtname, scale_given=None):
    """C06 invariant + C01 (+C03 when the library chose the scale) for an accepted 8-bit result. Returns [(sub,msg)]."""
    from optimum.quanto import QBytesTensor

    out = []
    if not isinstance(q, QBytesTensor):
        return [("wrong_class", f"8-bit request returned {type(q).__name__}")]
    if q.qtype.name != qname or q._data.dtype != num.qt(qname).dtype:
        out.append(("qtype", f"qtype {q.qtype.name}/{q._data.dtype} for requested {qname}"))
    if tuple(q.shape) != tuple(x.shape) or q.dtype != x.dtype or tuple(q._data.shape) != tuple(x.shape):
        return out + [("meta", f"shape/dtype {tuple(q.shape)} {q.dtype} payload {tuple(q._data.shape)} for source {tuple(x.shape)} {x.dtype}")]
    # requested axis, normalised
    if axis_req is None:
        want_axis = None
    else:
        want_axis = -1 if (axis_req == -1 or axis_req == x.ndim - 1) else axis_req
        if axis_req == 0 and x.ndim == 1:
            want_axis = 0
    eff = q.axis
    if eff != want_axis and not (eff is None and want_axis is not None and x.shape[want_axis] == 1):
        out.append(("axis", f"axis {eff} for requested {axis_req}"))
    sc = q._scale
    if eff is None:
        if sc.ndim != 0:
            out.append(("scale_shape", f"per-tensor result carries a scale of shape {tuple(sc.shape)}"))
            return out
    else:
        want = [1] * x.ndim
        want[eff] = x.shape[eff]
        if list(sc.shape) != want:
            out.append(("scale_shape", f"scale shape {tuple(sc.shape)} does not hold one value per index of axis {eff} of {tuple(x.shape)}"))
            return out
    if sc.dtype != x.dtype:
        out.append(("scale_dtype", f"scale dtype {sc.dtype}"))
    if bool((torch.isfinite(sc) & (sc > 0)).all()):
        mode = "none" if eff is None else ("axis0" if eff == 0 else "axism1")
        res, _ = c01.judge(x, sc, q, dtname, "qfloat8_e4m3fn" if qname == "qfloat8" else qname, mode, want_idem=False, qtype_names=(qname,))
        for sub, mask, extra in res:
            out.append(("c01_" + sub, f"accepted configuration violates C01 ({sub}) {extra.get('msg', '')}"))
    if scale_given is None:
        for sub, msg in c03._sym_judge(x, sc, eff, 127.0, dtname):
            out.append(("c03_" + sub, msg))
    return out


def _qw_task(task, out):
    from optimum.quanto import AbsmaxOptimizer, MaxOptimizer, quantize_weight

    shapes = list(_shapes())[task["lo"]:task["hi"]]
    dtname = "float32"
    dt = num.DTYPES[dtname]
    opts = {"none": None, "absmax": AbsmaxOptimizer(), "max": MaxOptimizer(), "foreign": _Foreign()}
    only = task.get("only")
    for shape in shapes:
        x = _values(shape, dt)
        numel = x.numel()
        for qname in ALLQ:
            qt = num.qt(qname)
            bits = qt.bits
            for axis in (None, -2, -1, 0, 1, 2):
                for gs in [None] + list(range(1, 2 * numel + 1)):
                    for oname, opt in opts.items():
                        c = [list(shape), qname, axis, gs, oname]
                        if only and only != c:
                            continue
                        out["evals"] += 1
                        out["calls"] += 1
                        out["points"] += 1
                        fields = {"kind": "qw", "qtype": qname, "axis": axis, "optimizer": oname, "grouped": gs is not None, "bits": bits}
                        case = dict(task, only=c)
                        # reference predicate: configurations the property lists as supported must not be rejected
                        n_axis = None if axis not in (0, -1) else (1 if len(shape) == 1 else numel // shape[axis])
                        if bits == 8:
                            supported = axis in (0, -1) and gs is None and oname in ("none", "absmax") and (len(shape) > 1 or shape[0] == 1)
                        else:
                            supported = axis in (0, -1) and oname in ("none", "max") and (gs is None or (gs <= n_axis and n_axis % gs == 0))
                        try:
                            q = quantize_weight(x, qt, axis, gs, opt)
                        except ValueError as e:
                            out["counters"]["rejected"] = out["counters"].get("rejected", 0) + 1
                            if supported:
                                out["violations"].append(violation(PID, case, dict(fields, sub="rejected_supported"), f"rejected_supported: quantize_weight{tuple(c)} is a supported configuration but raised ValueError: {e}"))
                            continue
                        except Exception as e:  # noqa
                            out["violations"].append(violation(PID, case, dict(fields, sub="wrong_exception"), f"wrong_exception: quantize_weight{tuple(c)} raised {type(e).__name__}: {e} (only ValueError is allowed)"))
                            continue
                        out["nontrivial"] += 1
                        out["counters"]["accepted"] = out["counters"].get("accepted", 0) + 1
                        # accepted: must be fully honoured
                        if axis not in (0, -1) or oname == "foreign" or (bits == 8 and (gs is not None or oname == "max")) or (bits < 8 and oname == "absmax"):
                            out["violations"].append(violation(PID, case, dict(fields, sub="accepted_unsupported"), f"accepted_unsupported: quantize_weight{tuple(c)} was accepted"))
                            continue
                        if bits == 8:
                            for sub, msg in _judge_qbytes(x, q, qname, axis, dtname):
                                out["violations"].append(violation(PID, case, dict(fields, sub=sub), f"{sub}: quantize_weight{tuple(c)}: {msg}"))
                        else:
                            n = 1 if len(shape) == 1 else numel // shape[axis]
                            if gs is not None and n % gs != 0:
                                out["violations"].append(violation(PID, case, dict(fields, sub="accepted_nondivisor"), f"accepted_nondivisor: group size {gs} is not a divisor of {n} but quantize_weight{tuple(c)} was accepted"))
                                continue
                            for sub, n_, msg, extra in wq.affine_judge(x, q, bits, axis, gs, dtname, idempotence=False):
                                out["violations"].append(violation(PID, case, dict(fields, sub=sub), f"{sub}: quantize_weight{tuple(c)}: {msg}"))
                            for sub, n_, msg, extra in wq.scale_judge_affine(x, q, bits, axis, gs, dtname):
                                out["violations"].append(violation(PID, case, dict(fields, sub="c03_" + sub), f"c03_{sub}: quantize_weight{tuple(c)}: {msg}"))


def _scale_menu(shape):
    """name -> scale shape (None = not applicable)."""
    r = len(shape)
    menu = {"scalar": (), "one": (1,), "ones_nd": (1,) * r}
    if r >= 1:
        a0 = [1] * r
        a0[0] = shape[0]
        menu["axis0"] = tuple(a0)
        al = [1] * r
        al[-1] = shape[-1]
        menu["axislast"] = tuple(al)
        w0 = list(a0)
        w0[0] = shape[0] + 1
        menu["axis0_wrong_len"] = tuple(w0)
        menu["flat_axis0"] = (shape[0],)
        menu["full"] = tuple(shape)
        menu["extra_dim"] = (1,) + tuple(a0)
    if r >= 2:
        two = [1] * r
        two[0] = shape[0]
        two[-1] = shape[-1]
        menu["two_axes"] = tuple(two)
    if r >= 3:
        mid = [1] * r
        mid[1] = shape[1]
        menu["middle_axis"] = tuple(mid)
    return menu


def _sym_task(task, out):
    from optimum.quanto import quantize_activation
    from optimum.quanto.tensor.quantizers import SymmetricQuantizer

    qname = task["q"]
    qt = num.qt(qname)
    only = task.get("only")
    for dtname in ("float32", "float16"):
        dt = num.DTYPES[dtname]
        for shape in [(3,), (1,), (2, 3), (3, 3), (1, 3), (3, 1), (2, 3, 4), (2, 1, 2), (2, 2, 2, 3)]:
            x = _values(shape, dt)
            for sname, sshape in _scale_menu(shape).items():
                n = 1
                for d in sshape:
                    n *= d
                sc = (0.05 + 0.03 * torch.arange(n, dtype=torch.float64)).reshape(sshape).to(dt)
                for api, axis in [("quantize_activation", None)] + [("SymmetricQuantizer", a) for a in (None, -2, -1, 0, 1, 2, 3)]:
                    c = [dtname, list(shape), sname, api, axis]
                    if only and only != c:
                        continue
                    out["evals"] += 1
                    out["calls"] += 1
                    out["points"] += 1
                    fields = {"kind": "sym", "qtype": qname, "api": api, "axis": axis, "scale": sname}
                    case = dict(task, only=c)
                    try:
                        q = quantize_activation(x, qt, sc) if api == "quantize_activation" else SymmetricQuantizer.apply(x, qt, axis, sc)
                    except ValueError:
                        out["counters"]["rejected"] = out["counters"].get("rejected", 0) + 1
                        continue
                    except Exception as e:  # noqa
                        out["violations"].append(violation(PID, case, dict(fields, sub="wrong_exception"), f"wrong_exception: {api}{tuple(c)} raised {type(e).__name__}: {e} (only ValueError is allowed)"))
                        continue
                    out["nontrivial"] += 1
                    out["counters"]["accepted"] = out["counters"].get("accepted", 0) + 1
                    for sub, msg in _judge_qbytes(x, q, qname, axis, dtname, scale_given=sc):
                        out["violations"].append(violation(PID, case, dict(fields, sub=sub), f"{sub}: {api}{tuple(c)}: {msg}"))
                    if not num.same_bits(q._scale.reshape(-1), sc.reshape(-1)):
                        out["violations"].append(violation(PID, case, dict(fields, sub="scale_changed"), f"scale_changed: {api}{tuple(c)} does not carry the scale it was given"))


def _aff_task(task, out):
    from optimum.quanto.tensor.quantizers import AffineQuantizer

    qname = task["q"]
    qt = num.qt(qname)
    only = task.get("only")
    dtname = "float32"
    dt = num.DTYPES[dtname]
    for shape in [(4,), (2, 4), (4, 4), (4, 2), (2, 2, 4), (1, 4)]:
        x = _values(shape, dt)
        # outliers far outside the range covered by the given scale / zero-point: they must saturate, not wrap
        x.view(-1)[0] = 100.0
        x.view(-1)[-1] = -77.0
        numel = x.numel()
        for axis in (None, -2, -1, 0, 1, 2):
            for gs in (None, 1, 2, 3, 4, 8, 64):
                ok_cfg = axis in (0, -1)
                if ok_cfg:
                    n = 1 if len(shape) == 1 else numel // shape[axis]
                    gid, pos, ng, gsz = wq.group_ids(shape, axis, gs) if (gs is None or (gs <= n and n % gs == 0)) else (None, None, None, None)
                else:
                    ng = None
                menu = {"scalar": (), "one": (1,), "full_src": tuple(shape)}
                if ng:
                    good = (ng, 1) if axis == 0 else (1, ng)
                    if gs is None and len(shape) > 1:
                        g2 = [1] * len(shape)
                        g2[axis] = shape[axis]
                        good = tuple(g2)
                    if len(shape) == 1 and gs is None:
                        good = (1,)
                    menu["good"] = good
                    menu["good_T"] = tuple(reversed(good))
                    menu["good_flat"] = (ng,)
                    menu["wrong_len"] = tuple(d + 1 if d > 1 else d for d in good) if ng > 1 else (2,) + tuple(good)
                for sname, sshape in menu.items():
                    for zname in ("same", "scalar"):
                        c = [list(shape), axis, gs, sname, zname]
                        if only and only != c:
                            continue
                        n_ = 1
                        for d in sshape:
                            n_ *= d
                        sc = (0.2 + 0.05 * torch.arange(n_, dtype=torch.float64)).reshape(sshape).to(dt)
                        zshape = sshape if zname == "same" else ()
                        nz = 1
                        for d in zshape:
                            nz *= d
                        zp = (torch.arange(nz) % 3 + 6).to(torch.int8).reshape(zshape)
                        out["evals"] += 1
                        out["calls"] += 1
                        out["points"] += 1
                        fields = {"kind": "aff", "qtype": qname, "axis": axis, "scale": sname, "zeropoint": zname, "grouped": gs is not None}
                        case = dict(task, only=c)
                        try:
                            q = AffineQuantizer.apply(x, qt, axis, gs, sc, zp)
                            dq = q.dequantize()
                        except ValueError:
                            out["counters"]["rejected"] = out["counters"].get("rejected", 0) + 1
                            continue
                        except Exception as e:  # noqa
                            out["violations"].append(violation(PID, case, dict(fields, sub="wrong_exception"), f"wrong_exception: AffineQuantizer{tuple(c)} raised {type(e).__name__}: {e} (only ValueError is allowed)"))
                            continue
                        out["nontrivial"] += 1
                        out["counters"]["accepted"] = out["counters"].get("accepted", 0) + 1
                        bits = qt.bits
                        if bits == 8 or not ok_cfg:
                            out["violations"].append(violation(PID, case, dict(fields, sub="accepted_unsupported"), f"accepted_unsupported: AffineQuantizer{tuple(c)} with {qname} was accepted"))
                            continue
                        if ng is None:
                            out["violations"].append(violation(PID, case, dict(fields, sub="accepted_nondivisor"), f"accepted_nondivisor: AffineQuantizer{tuple(c)} was accepted"))
                            continue
                        # honoured: one scale and zero-point per group, codes are the nearest level for the given scale/zero-point
                        if q._scale.numel() != ng or tuple(q._zeropoint.shape) != tuple(q._scale.shape) or tuple(q.shape) != tuple(shape) or tuple(dq.shape) != tuple(shape):
                            out["violations"].append(violation(PID, case, dict(fields, sub="scale_count"), f"scale_count: AffineQuantizer{tuple(c)} accepted a scale of shape {tuple(sc.shape)} / zero-point {tuple(zp.shape)} for {ng} group(s)"))
                            continue
                        s_e = q._scale.to(torch.float64).flatten()[gid]
                        z_e = q._zeropoint.to(torch.float64).flatten()[gid]
                        x64 = x.to(torch.float64)
                        L = (1 << bits) - 1
                        code = torch.clamp(torch.round(x64 / s_e) + z_e, 0, L)
                        want = s_e * (code - z_e)
                        if not bool(((dq.to(torch.float64) - want).abs() <= s_e * 0.51).all()):
                            out["violations"].append(violation(PID, case, dict(fields, sub="wrong_values"), f"wrong_values: AffineQuantizer{tuple(c)} does not quantize each group with its own scale/zero-point"))


def _module_forward(m, x, case, fields, out, label):
    try:
        with torch.no_grad():
            y = m(x)
        if not bool(torch.isfinite(y).all()):
            out["violations"].append(violation(PID, case, dict(fields, sub="nonfinite"), f"nonfinite: forward of {label} is not finite"))
        return y
    except Exception as e:  # noqa
        out["violations"].append(violation(PID, case, dict(fields, sub="forward_raised"), f"forward_raised: {label}: {type(e).__name__}: {e}"))
        return None


def _gs_linear_task(task, out):
    from optimum.quanto import QLinear

    only = task.get("only")
    seen_classes = set()
    for n in range(task["lo"], task["hi"]):
        for qname in ("qint4", "qint2"):
            c = [n, qname]
            if only and only != c:
                continue
            out["evals"] += 1
            out["points"] += 1
            fields = {"kind": "gs_linear", "qtype": qname}
            case = dict(task, only=c)
            if n <= 512 and n % 7 == 0:
                # a single output feature (value head): the quantization axis has size one
                try:
                    m1 = QLinear(n, 1, bias=False, weights=num.qt(qname))
                    with torch.no_grad():
                        m1.weight.copy_(((torch.arange(n, dtype=torch.float32) * 7) % 13 - 6).reshape(1, n) / 8)
                    y1 = _module_forward(m1, ((torch.arange(2 * n, dtype=torch.float32) * 5) % 11 - 5).reshape(2, n) / 4, case, dict(fields, out_features=1), out, f"QLinear({n},1,{qname})")
                    if y1 is not None and tuple(y1.shape) != (2, 1):
                        out["violations"].append(violation(PID, case, dict(fields, sub="shape"), f"shape: QLinear({n},1) output {tuple(y1.shape)}"))
                    m1.freeze()
                    _module_forward(m1, ((torch.arange(2 * n, dtype=torch.float32) * 5) % 11 - 5).reshape(2, n) / 4, case, dict(fields, out_features=1), out, f"frozen QLinear({n},1,{qname})")
                except Exception as e:  # noqa
                    out["violations"].append(violation(PID, case, dict(fields, sub="construct_raised"), f"construct_raised: QLinear({n},1,weights={qname}): {type(e).__name__}: {e}"))
            try:
                m = QLinear(n, 2, bias=True, weights=num.qt(qname))
            except Exception as e:  # noqa
                out["violations"].append(violation(PID, case, dict(fields, sub="construct_raised"), f"construct_raised: QLinear({n},2,weights={qname}): {type(e).__name__}: {e}"))
                continue
            gs = m.weight_group_size
            if gs is not None:
                out["nontrivial"] += 1
            if gs is not None and (gs <= 0 or n % gs != 0):
                out["violations"].append(violation(PID, case, dict(fields, sub="group_not_divisor"), f"group_not_divisor: QLinear({n},2,{qname}) chose group size {gs}"))
            cls = (n % 128, gs, qname)
            if n <= 512 or cls not in seen_classes:
                seen_classes.add(cls)
                out["calls"] += 1
                with torch.no_grad():
                    m.weight.copy_(((torch.arange(2 * n, dtype=torch.float32) * 7) % 13 - 6).reshape(2, n) / 8)
                x = ((torch.arange(3 * n, dtype=torch.float32) * 5) % 11 - 5).reshape(3, n) / 4
                y = _module_forward(m, x, case, fields, out, f"QLinear({n},2,{qname}) group {gs}")
                if y is not None and tuple(y.shape) != (3, 2):
                    out["violations"].append(violation(PID, case, dict(fields, sub="shape"), f"shape: output {tuple(y.shape)}"))
                out["counters"]["forwards"] = out["counters"].get("forwards", 0) + 1


def _gs_conv_task(task, out):
    from optimum.quanto import QConv2d

    only = task.get("only")
    seen = set()
    for cin in range(task["clo"], task["chi"]):
        for groups in [g for g in range(1, cin + 1) if cin % g == 0]:
            for kh in range(1, task["kmax"] + 1):
                for kw in range(1, task["kmax"] + 1):
                    for qname in ("qint4", "qint2"):
                        c = [cin, groups, kh, kw, qname]
                        if only and only != c:
                            continue
                        n = (cin // groups) * kh * kw
                        out["evals"] += 1
                        out["points"] += 1
                        fields = {"kind": "gs_conv", "qtype": qname}
                        case = dict(task, only=c)
                        try:
                            m = QConv2d(cin, groups * 2, (kh, kw), groups=groups, bias=True, weights=num.qt(qname))
                        except Exception as e:  # noqa
                            out["violations"].append(violation(PID, case, dict(fields, sub="construct_raised"), f"construct_raised: QConv2d{tuple(c)}: {type(e).__name__}: {e}"))
                            continue
                        gs = m.weight_group_size
                        if gs is not None:
                            out["nontrivial"] += 1
                        if gs is not None and (gs <= 0 or n % gs != 0):
                            out["violations"].append(violation(PID, case, dict(fields, sub="group_not_divisor"), f"group_not_divisor: QConv2d{tuple(c)} per-output count {n} group size {gs}"))
                        key = (n, gs, qname)
                        if key not in seen and (n <= 512 or (n % 128, gs, qname) not in seen):
                            seen.add(key)
                            seen.add((n % 128, gs, qname))
                            out["calls"] += 1
                            with torch.no_grad():
                                w = m.weight
                                w.copy_((((torch.arange(w.numel(), dtype=torch.float32) * 7) % 13 - 6) / 8).reshape(w.shape))
                            x = (((torch.arange(cin * (kh + 1) * (kw + 1), dtype=torch.float32) * 5) % 11 - 5) / 4).reshape(1, cin, kh + 1, kw + 1)
                            y = _module_forward(m, x, case, fields, out, f"QConv2d{tuple(c)} group {gs}")
                            if y is not None and tuple(y.shape) != (1, groups * 2, 2, 2):
                                out["violations"].append(violation(PID, case, dict(fields, sub="shape"), f"shape: output {tuple(y.shape)}"))
                            out["counters"]["forwards"] = out["counters"].get("forwards", 0) + 1


def _large_task(task, out):
    """Size ladder: accepted configurations on tensors / layers of more than 2^20 elements are honoured exactly like small ones."""
    from optimum.quanto import QLinear, quantize_weight

    only = task.get("only")
    dtname = "float32"
    dt = num.DTYPES[dtname]

    def vals(shape):
        n = shape[0] * shape[1]
        i = torch.arange(n, dtype=torch.float64)
        v = (((i * 7) % 13 - 6) / 4 + (i % 1021) * 0.01) * (1.0 + (i // shape[1]) % 5)
        v = v.reshape(shape)
        v[::5] = 0.0  # zero rows
        return v.to(dt)

    cfgs = [("qint4", (1000, 2048), 0, 128), ("qint2", (1000, 2048), 0, 128), ("qint4", (2000, 1030), -1, 100), ("qint4", (1031, 1040), 0, None),
            ("qint8", (1031, 1040), 0, None), ("qfloat8_e4m3fn", (1031, 1040), 0, None), ("qfloat8_e5m2", (1040, 1031), -1, None), ("qint8", (1040, 1031), -1, None)]
    if task.get("huge"):
        cfgs = [("qint4", (4100, 4224), 0, 128), ("qint2", (8193, 1024), 0, None), ("qint8", (8193, 1024), 0, None), ("qfloat8_e4m3fn", (4100, 4224), 0, None)]
    for qname, shape, axis, gs in cfgs:
        c = ["qw", qname, list(shape), axis, gs]
        if only and only != c:
            continue
        x = vals(shape)
        out["evals"] += 1
        out["calls"] += 1
        out["points"] += 1
        out["nontrivial"] += 1
        qt = num.qt(qname)
        fields = {"kind": "large", "qtype": qname, "axis": axis, "grouped": gs is not None, "bits": qt.bits}
        case = dict(task, only=c)
        try:
            num.poison(x.numel() * 4, x.numel())
            q = quantize_weight(x, qt, axis, gs) if qt.bits < 8 else quantize_weight(x, qt, axis)
        except Exception as e:  # noqa
            out["violations"].append(violation(PID, case, dict(fields, sub="rejected_supported"), f"rejected_supported: quantize_weight({qname}, axis={axis}, group_size={gs}) on {shape}: {type(e).__name__}: {str(e)[:160]}"))
            continue
        out["counters"]["accepted"] = out["counters"].get("accepted", 0) + 1
        if qt.bits < 8:
            for sub, n_, msg, extra in wq.affine_judge(x, q, qt.bits, axis, gs, dtname, idempotence=False):
                out["violations"].append(violation(PID, case, dict(fields, sub="c02_" + sub), f"c02_{sub}: accepted large configuration {c}: {msg}"))
        else:
            for sub, msg in _judge_qbytes(x, q, qname, axis, dtname):
                out["violations"].append(violation(PID, case, dict(fields, sub=sub), f"{sub}: accepted large configuration {c}: {msg}"))
    for qname in ("qint4", "qint2", "qint8", "qfloat8_e4m3fn"):
        for fin, fout in ((2048, 1000), (1000, 2050)) if not task.get("huge") else ((4224, 4100),):
            c = ["module", qname, fin, fout]
            if only and only != c:
                continue
            out["evals"] += 1
            out["points"] += 1
            out["nontrivial"] += 1
            qt = num.qt(qname)
            fields = {"kind": "large", "qtype": qname, "module": True, "bits": qt.bits}
            case = dict(task, only=c)
            try:
                m = QLinear(fin, fout, bias=True, weights=qt)
                w = vals((fout, fin))
                with torch.no_grad():
                    m.weight.copy_(w)
                gs = m.weight_group_size
                if gs is not None and (gs <= 0 or fin % gs != 0):
                    out["violations"].append(violation(PID, case, dict(fields, sub="group_not_divisor"), f"group_not_divisor: QLinear({fin},{fout},{qname}) chose group size {gs}"))
                x = ((torch.arange(3 * fin, dtype=torch.float32) * 5) % 11 - 5).reshape(3, fin) / 4
                _module_forward(m, x, case, fields, out, f"QLinear({fin},{fout},{qname})")
                m.freeze()
                _module_forward(m, x, case, fields, out, f"frozen QLinear({fin},{fout},{qname})")
                q = m.weight
                if qt.bits < 8:
                    for sub, n_, msg, extra in wq.affine_judge(w, q, qt.bits, 0, gs, dtname, idempotence=False):
                        out["violations"].append(violation(PID, case, dict(fields, sub="c02_" + sub), f"c02_{sub}: frozen weight of QLinear({fin},{fout},{qname}): {msg}"))
                else:
                    for sub, msg in _judge_qbytes(w, q, qname, 0, dtname):
                        out["violations"].append(violation(PID, case, dict(fields, sub=sub), f"{sub}: frozen weight of QLinear({fin},{fout},{qname}): {msg}"))
            except Exception as e:  # noqa
                out["violations"].append(violation(PID, case, dict(fields, sub="construct_raised"), f"construct_raised: QLinear({fin},{fout},weights={qname}): {type(e).__name__}: {str(e)[:160]}"))


def _run(task):
    out = {"evals": 0, "nontrivial": 0, "points": 0, "calls": 0, "violations": [], "samples": [], "counters": {}}
    {"qw": _qw_task, "sym": _sym_task, "aff": _aff_task, "gs_linear": _gs_linear_task, "gs_conv": _gs_conv_task, "large": _large_task}[task["kind"]](task, out)
    return out


def run_task(task):
    out = _run(task)
    out["nviol"] = len(out["violations"])
    seen = {}
    for v in out["violations"]:
        seen.setdefault(str(sorted(v["fields"].items())), v)
    out["violations"] = list(seen.values())[:80]
    out["counters"][task["kind"] + "_points"] = out["points"]
    if task["kind"] == "qw" and task["lo"] == 0:
        out["samples"].append({"call": "quantize_weight", "shape": [4, 3], "qtype": "qint4", "axis": 0, "group_size": 2, "optimizer": "absmax", "outcome": "ValueError"})
    if task["kind"] == "gs_linear" and task["lo"] == 1:
        out["samples"].append({"module": "QLinear", "in_features": 200, "qtype": "qint2", "outcome": "weight_group_size None or divisor; forward runs"})
    return out


def replay_task(case):
    return _run(case)["violations"]


def coverage(agg, tier, tasks):
    from ..pool import HarnessError

    for k in ("qw_points", "sym_points", "aff_points", "gs_linear_points", "gs_conv_points", "accepted", "rejected", "forwards"):
        if agg.counters.get(k, 0) == 0:
            raise HarnessError(f"vacuity guard: {k} == 0")
    return {
        "rule": RULE,
        "states": agg.points,
        "transitions": agg.evals,
        "traces_validated_against_impl": agg.evals,
        "exhaustive": True,
        "counters": dict(sorted(agg.counters.items())),
    }
