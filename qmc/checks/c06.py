"""C06 - a quantized tensor's reported metadata always matches what it holds (E2, invariant)."""
import io
import itertools
import os
import tempfile

import torch

from .. import num, texp
from ..report import violation

PID = "C06"
LEVEL = "model_checking"
ASSUMPTIONS = [
    "same transition system as C05 (qmc/texp.py) plus creation routes (quantize_weight / quantize_activation over all qtypes, axes, group sizes and small shapes; freeze; "
    "state_dict save/load through pickle, weights_only and safetensors; Parameter, .data, dtype moves, to('meta'))",
    "only cpu and meta devices exist here",
]
expand_task = texp.expand_task
ladder_task = texp.ladder_task
ALLQ = ["qint8", "qfloat8", "qfloat8_e4m3fn", "qfloat8_e5m2", "qint4", "qint2"]


def _divisors(n):
    return [d for d in range(1, n + 1) if n % d == 0]


def creation_task(task):
    """Every quantized tensor produced by the public creation routes must satisfy the invariant."""
    from optimum.quanto import QTensor, freeze, quantize, quantize_activation, quantize_weight, safe_load, safe_save

    out = {"evals": 0, "violations": []}
    dtname = task["dt"]
    dt = num.DTYPES[dtname]
    only = task.get("only")

    def judge(t, case, what, fields):
        out["evals"] += 1
        for m in texp.check_meta(t):
            out["violations"].append(violation(PID, case, dict(fields, kind="c06", sub=texp._sub(m)), f"{texp._sub(m)}: {what}: {m}"))

    if task["kind"] == "quantize":
        for rank in (1, 2, 3, 4):
            for shape in itertools.product((1, 2, 3, 4), repeat=rank):
                n = 1
                for d in shape:
                    n *= d
                if n > 64:
                    continue
                x = texp._vals(shape, dt)
                for qname in ALLQ:
                    qt = num.qt(qname)
                    for axis in (0, -1):
                        rows = 1 if rank == 1 else n // shape[axis]
                        for gs in ([None] + _divisors(rows)) if qt.bits < 8 else [None]:
                            c = ["qw", list(shape), qname, axis, gs]
                            if only and only != c:
                                continue
                            try:
                                q = quantize_weight(x, qt, axis, gs) if qt.bits < 8 else quantize_weight(x, qt, axis)
                            except ValueError:
                                continue
                            judge(q, dict(task, only=c), f"quantize_weight{tuple(c[1:])}", {"route": "quantize_weight", "qtype": qname})
                            for tdt in ("float16", "bfloat16", "float32"):
                                if qt.bits == 8 and num.DTYPES[tdt] != dt:
                                    judge(q.to(num.DTYPES[tdt]), dict(task, only=c), f"quantize_weight{tuple(c[1:])}.to({tdt})", {"route": "to_dtype", "qtype": qname})
                            judge(q.to("meta"), dict(task, only=c), f"quantize_weight{tuple(c[1:])}.to(meta)", {"route": "to_meta", "qtype": qname}) if False else None
                    if qt.bits == 8:
                        c = ["qa", list(shape), qname, None, None]
                        if only and only != c:
                            continue
                        q = quantize_activation(x, qt, torch.tensor(0.01, dtype=dt))
                        judge(q, dict(task, only=c), f"quantize_activation{tuple(c[1:3])}", {"route": "quantize_activation", "qtype": qname})
    else:
        # module level: freeze + state_dict round trips
        for mk in ("linear", "conv"):
            for wname in ALLQ:
                for feat in ((16,) if mk == "conv" else (6, 160)):
                    for route in ("freeze", "pickle", "weights_only", "safetensors", "assign"):
                        c = [mk, wname, feat, route]
                        if only and only != c:
                            continue

                        def build():
                            torch.manual_seed(1)
                            m = torch.nn.Linear(feat, 3) if mk == "linear" else torch.nn.Conv2d(feat, 4, 3)
                            model = torch.nn.Sequential(m).to(dt)
                            quantize(model, weights=num.qt(wname))
                            return model

                        model = build()
                        freeze(model)
                        fields = {"route": route, "qtype": wname, "module": mk}
                        case = dict(task, only=c)
                        w = model[0].weight
                        if not isinstance(w, QTensor):
                            out["violations"].append(violation(PID, case, dict(fields, kind="c06", sub="not_frozen"), "not_frozen: weight is not quantized after freeze"))
                            continue
                        if route == "freeze":
                            judge(w, case, f"frozen weight of {mk}({feat}) {wname}", fields)
                            continue
                        sd = model.state_dict()
                        try:
                            if route in ("pickle", "weights_only", "assign"):
                                b = io.BytesIO()
                                torch.save(sd, b)
                                b.seek(0)
                                sd2 = torch.load(b, weights_only=(route == "weights_only"))
                            else:
                                with tempfile.TemporaryDirectory(dir=os.environ.get("TMPDIR", "/tmp")) as d:
                                    safe_save(sd, os.path.join(d, "m.safetensors"))
                                    sd2 = safe_load(os.path.join(d, "m.safetensors"))
                            fresh = build()
                            fresh.load_state_dict(sd2, assign=(route == "assign"))
                        except Exception as e:  # noqa
                            out["violations"].append(violation(PID, case, dict(fields, kind="c06", sub="raised"), f"raised: {route} round trip of {mk}({feat}) {wname}: {type(e).__name__}: {e}"))
                            continue
                        w2 = fresh[0].weight
                        if not isinstance(w2, QTensor):
                            out["violations"].append(violation(PID, case, dict(fields, kind="c06", sub="not_quantized"), f"not_quantized: weight loaded through {route} is a {type(w2).__name__}"))
                            continue
                        judge(w2, case, f"weight of {mk}({feat}) {wname} loaded through {route}", fields)
                        if not torch.equal(texp.payload_bits(w2.data), texp.payload_bits(w.data)):
                            out["violations"].append(violation(PID, case, dict(fields, kind="c06", sub="codes_altered"), f"codes_altered: {route} round trip altered the codes of {mk}({feat}) {wname}"))
    return out


def main(ctx):
    depth = 3 if ctx.tier == "quick" else 4
    agg, cov = texp.bfs(ctx, "c06", depth, ctx.tier, PID)
    tasks = [{"kind": k, "dt": dt} for k in ("quantize", "modules") for dt in ("float32", "float16", "bfloat16")]
    res = ctx.map("creation_task", tasks, label="creation routes")
    n = 0
    for t, (kind, val) in zip(tasks, res):
        if kind == "crash":
            agg.violations.append(violation(PID, t, {"kind": "c06", "sub": "worker_crash"}, f"worker_crash: {val}"))
            continue
        n += val["evals"]
        agg.violations.extend(val["violations"][:50])
    agg.evals += n
    agg.nontrivial += n
    cov["creation_route_tensors_checked"] = n
    cov["rule"] = ("breadth-first search over the C05 transition system; invariant evaluated on every quantized tensor reached (shape/dtype/device vs dequantize(), one code per element, "
                   "storage type, scale/zero-point layout for the declared axis, flatten/unflatten round trip) and transition invariants (moves/copies keep codes, dtype moves change only the "
                   "scale dtype); plus every tensor created by quantize_weight/quantize_activation (6 qtypes x shapes rank 1..4 dims 1..4 x axis x group sizes), by freeze and by 4 state-dict load routes")
    return agg, cov


def replay_task(case):
    if "init" in case:
        return texp.replay_case(case, "c06")
    return creation_task(case)["violations"]
