"""C13 - calibration is scoped; inference and quantization are free of side effects (E3: fault enumeration + E1 purity)."""
import copy
import itertools

import torch
import torch.nn as nn

from .. import lifecycle, models, num
from ..pool import journal
from ..report import violation

PID = "C13"
LEVEL = "fault_enumeration"
RULE = (
    "fault enumeration: breadth-first search over histories (depth 4 quick / 6 thorough, at most 2 injected faults, nesting depth <= 2) of {enter Calibration, exit, forward of an unfrozen / "
    "frozen-calibrated / foreign float model on a normal or all-zero batch, create-and-run a new quantized model, forward with an exception injected at crash point k (every module x every "
    "invocation ordinal, incl. the re-invocations made by the calibration hook; open contexts are unwound like nested with-statements), disable_extensions() left normally or by exception}; "
    "invariants after every event: hook registries and the torch-function mode stack equal the snapshot of the matching enter after each exit, are pristine when no context is open, "
    "forwards outside a context change no parameter/buffer/scale/qtype and are bit-reproducible, foreign and new models are unaffected, the extension switch is restored. Purity (E1): every "
    "library entry point x qtype x source layout {contiguous, transposed, sliced, expanded} x scale values {0.1, 0, 1} leaves its float sources bit-identical with unchanged _version. "
    "Non-trivial = events executed while a context is open or with an injected fault, plus every purity case."
)
ASSUMPTIONS = [
    "faults are exceptions raised by a module's forward/qforward (instance-level wrapper counting invocations); asynchronous faults are out of scope",
    "disable_extensions() is only used non-nested (the property speaks of hook registries and the mode stack)",
]


class Boom(Exception):
    pass


class BoomBase(BaseException):
    """A non-Exception BaseException (like KeyboardInterrupt / SystemExit / CancelledError)."""


def _hooks_snapshot():
    import torch.nn.modules.module as M
    from torch.overrides import _get_current_function_mode_stack

    return (
        tuple((k, id(v)) for k, v in M._global_forward_hooks.items()),
        tuple((k, id(v)) for k, v in M._global_forward_pre_hooks.items()),
        tuple(id(m) for m in _get_current_function_mode_stack()),
    )


def _snap_sizes(s):
    return (len(s[0]), len(s[1]), len(s[2]))


class World:
    def __init__(self, cfg):
        from optimum.quanto import Calibration, freeze

        self.cfg = cfg
        dt = cfg["dt"]
        a = cfg["a"]
        # A contains an in-place rescaling of the activation: by a python scalar, or by a 0-dim buffer tensor
        self.A = models.build_quantized(cfg.get("A", "idiv"), dt, cfg["w"], a)
        self.B = models.build_quantized("mlp", dt, cfg["w"], a)
        with torch.no_grad(), Calibration(streamline=False):
            self.B(models.probe_input("mlp", dt, 1))
        freeze(self.B)
        self.F = models.build_float("mlp", dt)
        self.stack = []  # (Calibration object, snapshot before enter)
        self.base = _hooks_snapshot()
        self.faults = 0
        self.newcount = 0

    def model(self, name):
        return getattr(self, name)


def _inject(model, k, exc=None):
    """Make the k-th module invocation (0-based, counted over all modules of the model) raise. Returns an undo function."""
    from optimum.quanto import QModuleMixin

    counter = {"n": 0}
    patched = []
    for m in model.modules():
        if len(list(m.children())) > 0:
            continue
        attr = "qforward" if isinstance(m, QModuleMixin) else "forward"
        orig = getattr(m, attr)

        def wrapper(*a, _orig=orig, **kw):
            i = counter["n"]
            counter["n"] += 1
            if i == k:
                raise (exc or Boom)(f"injected at invocation {k}")
            return _orig(*a, **kw)

        m.__dict__[attr] = wrapper
        patched.append((m, attr))

    def undo():
        for m, attr in patched:
            m.__dict__.pop(attr, None)
        return counter["n"]

    return undo


def _batch(kind, dt):
    x = models.probe_input("mlp", dt, 0)
    if kind == "h":
        # an input of another float dtype than the model (a float32 model fed half-precision activations)
        return x.to(torch.float16 if x.dtype != torch.float16 else torch.float32)
    return torch.zeros_like(x) if kind == "z" else x


def _events(w, tier):
    ev = []
    if len(w.stack) < 2:
        ev.append("enter")
    if w.stack:
        ev.append("exit")
    for name in ("A", "B", "F"):
        ev.append(f"fwd:{name}:n")
    ev.append("fwd:A:z")
    if w.cfg["a"] is not None and not w.stack:
        # inference only: calibrating a model with batches of another dtype is a usage error, not a side-effect question
        ev += ["fwd:B:h", "fwd:A:h"]
    ev.append("new")
    ev += ["ext_ok", "ext_fault"]
    if w.faults < 2:
        nmax = 9 if w.stack else 3
        for name in ("A", "B", "F"):
            for k in range(nmax):
                ev.append(f"fault:{name}:{k}")
        # the same with an exception that is not a subclass of Exception (Ctrl-C during calibration)
        for k in (0, 4) if w.stack else (1,):
            ev.append(f"faultbase:A:{k}")
    return ev


def _apply(w, ev):
    """Executes the event on the world (used for replay); returns the world."""
    from optimum.quanto import Calibration
    from optimum.quanto.library.ops import disable_extensions

    dt = w.cfg["dt"]
    if ev == "enter":
        snap = _hooks_snapshot()
        c = Calibration(streamline=False)
        c.__enter__()
        w.stack.append((c, snap))
    elif ev == "exit":
        c, snap = w.stack.pop()
        c.__exit__(None, None, None)
    elif ev.startswith("fwd:"):
        _, name, kind = ev.split(":")
        with torch.no_grad():
            try:
                w.model(name)(_batch(kind, dt))
            except RuntimeError:
                if kind != "h":
                    raise  # a dtype mismatch on a foreign-dtype input is acceptable; side effects are still judged
    elif ev == "new":
        w.newcount += 1
        m = models.build_quantized("lin", dt, w.cfg["w"], w.cfg["a"])
        with torch.no_grad():
            m(models.probe_input("lin", dt, 0))
        w.last_new = m
    elif ev in ("ext_ok", "ext_fault"):
        try:
            with disable_extensions():
                with torch.no_grad():
                    w.A(_batch("n", dt)) if not w.stack else None
                if ev == "ext_fault":
                    raise Boom("inside disable_extensions")
        except Boom:
            pass
    elif ev.startswith(("fault:", "faultbase:")):
        kind, name, k = ev.split(":")
        exc = BoomBase if kind == "faultbase" else Boom
        undo = _inject(w.model(name), int(k), exc)
        raised = None
        try:
            with torch.no_grad():
                w.model(name)(_batch("n", dt))
        except (Boom, BoomBase) as e:
            raised = e
        finally:
            undo()
        if raised is not None:
            w.faults += 1
            # the exception propagates out of every open `with Calibration()` block, innermost first
            while w.stack:
                c, snap = w.stack.pop()
                c.__exit__(type(raised), raised, raised.__traceback__)
    else:
        raise ValueError(ev)
    return w


def _key(w):
    import optimum.quanto.library.ops as ops

    return (len(w.stack), lifecycle.model_hash(w.A), lifecycle.model_hash(w.B), lifecycle.model_hash(w.F), _snap_sizes(_hooks_snapshot()), ops._ext_enabled, w.faults)


def _cleanup(w):
    """Leave the process clean after a history (pop whatever is still open)."""
    while w.stack:
        c, snap = w.stack.pop()
        try:
            c.__exit__(None, None, None)
        except Exception:
            pass


def _purge_globals():
    import torch.nn.modules.module as M

    M._global_forward_hooks.clear()
    M._global_forward_pre_hooks.clear()
    import optimum.quanto.library.ops as ops

    ops._ext_enabled = True
    from torch.overrides import _get_current_function_mode_stack, _pop_mode

    while _get_current_function_mode_stack():
        _pop_mode()


def _explore(cfg, tier, only=None):
    import optimum.quanto.library.ops as ops

    depth = 4 if tier == "quick" else 6
    viol = []
    counters = {"in_context": 0, "faults_fired": 0, "exits": 0, "nontrivial": 0}
    worlds = []

    def build():
        _purge_globals()
        w = World(cfg)
        worlds.append(w)
        return w

    def on_transition(hist, ev, w):
        if only is not None and (hist != only["history"] or ev != only["event"]):
            return _apply(w, ev) if len(hist) < len(only["history"]) else None
        case = {"cfg": cfg, "tier": tier, "history": hist, "event": ev}
        journal(repr(case))
        fields = {"event": ev.split(":")[0], "weights": cfg["w"], "activations": cfg["a"], "nested": len(w.stack), "faults_before": w.faults}
        depth_before = len(w.stack)
        if depth_before:
            counters["in_context"] += 1
        hA, hB, hF = lifecycle.model_hash(w.A), lifecycle.model_hash(w.B), lifecycle.model_hash(w.F)
        snap_top = w.stack[-1][1] if w.stack else None
        snaps = [s for _, s in w.stack]
        ext_before = ops._ext_enabled
        faults_before = w.faults
        try:
            w = _apply(w, ev)
        except Exception as e:  # noqa
            viol.append(violation(PID, case, dict(fields, sub="event_raised"), f"event_raised: {ev} after {hist} raised {type(e).__name__}: {str(e)[:200]}"))
            return None
        now = _hooks_snapshot()
        fired = w.faults > faults_before
        if fired:
            counters["faults_fired"] += 1
        if fired or depth_before:
            counters["nontrivial"] += 1
        # I1: exits restore the registries / mode stack of the matching enter
        if ev == "exit":
            counters["exits"] += 1
            if now != snap_top:
                viol.append(violation(PID, case, dict(fields, sub="exit_not_restored"), f"exit_not_restored: after leaving a Calibration context the hook registries / mode stack {_snap_sizes(now)} differ from those at the matching enter {_snap_sizes(snap_top)} (history {hist})"))
        if fired and snaps:
            if now != snaps[0]:
                viol.append(violation(PID, case, dict(fields, sub="exceptional_exit_not_restored"), f"exceptional_exit_not_restored: after an exception left {len(snaps)} open context(s) the registries / mode stack {_snap_sizes(now)} differ from the outermost enter snapshot {_snap_sizes(snaps[0])} (history {hist}, event {ev})"))
        if not w.stack and now != w.base:
            viol.append(violation(PID, case, dict(fields, sub="leak"), f"leak: no context is open but registries / mode stack are {_snap_sizes(now)} instead of {_snap_sizes(w.base)} after {hist + [ev]}"))
        # I6: extension switch
        if ops._ext_enabled != ext_before:
            viol.append(violation(PID, case, dict(fields, sub="ext_switch"), f"ext_switch: _ext_enabled is {ops._ext_enabled} after {ev} (was {ext_before})"))
        # I3 / I2: forwards outside a context change nothing; foreign model never changes
        if lifecycle.model_hash(w.F) != hF:
            viol.append(violation(PID, case, dict(fields, sub="foreign_changed"), f"foreign_changed: the non-quantized model changed during {ev} after {hist}"))
        if depth_before == 0 and ev != "enter":
            if lifecycle.model_hash(w.A) != hA or lifecycle.model_hash(w.B) != hB:
                viol.append(violation(PID, case, dict(fields, sub="inference_side_effect"), f"inference_side_effect: {ev} outside any Calibration context changed a parameter/buffer/scale/qtype (history {hist})"))
        if lifecycle.model_hash(w.B) != hB and not ev.startswith(("fwd:B", "fault:B")):
            viol.append(violation(PID, case, dict(fields, sub="other_model_changed"), f"other_model_changed: model B changed during {ev}"))
        if ev == "new" and depth_before == 0:
            m = w.last_new
            for n, q in models.qmodules(m):
                if float(q.input_scale) != 1.0 or float(q.output_scale) != 1.0:
                    viol.append(violation(PID, case, dict(fields, sub="new_model_calibrated"), f"new_model_calibrated: a model created and run after all contexts were left had its scales changed ({hist})"))
                    break
        # I7: once every context is left (normally or through an exception) a model behaves like a replica rebuilt from its
        # state_dict that never was inside a context (no residue in module attributes that the state_dict does not carry)
        if not w.stack and (ev == "exit" or fired):
            for name in ("A", "B"):
                try:
                    src = w.model(name)
                    rep = models.build_quantized(cfg.get("A", "idiv") if name == "A" else "mlp", cfg["dt"], cfg["w"], cfg["a"])
                    if name == "B":
                        from optimum.quanto import freeze

                        freeze(rep)
                    rep.load_state_dict(src.state_dict())
                    with torch.no_grad():
                        xs = _batch("n", cfg["dt"])
                        ya, yb = src(xs), rep(xs)
                    if type(ya) is not type(yb) or lifecycle.out_bytes(ya) != lifecycle.out_bytes(yb):
                        viol.append(violation(PID, case, dict(fields, sub="residue_after_context"), f"residue_after_context: after leaving every context ({'exception' if fired else 'normal exit'}) model {name} returns {type(ya).__name__} / other values than a replica rebuilt from its state_dict ({type(yb).__name__}) (history {hist}, event {ev})"))
                except Exception as e:  # noqa
                    viol.append(violation(PID, case, dict(fields, sub="residue_after_context"), f"residue_after_context: comparing model {name} with a replica raised {type(e).__name__}: {str(e)[:160]} (history {hist}, event {ev})"))
        # I5: reproducibility outside contexts
        if not w.stack and ev.startswith("fwd:"):
            name = ev.split(":")[1]
            with torch.no_grad():
                y1 = lifecycle.out_bytes(w.model(name)(_batch("n", cfg["dt"])))
                y2 = lifecycle.out_bytes(w.model(name)(_batch("n", cfg["dt"])))
            if y1 != y2:
                viol.append(violation(PID, case, dict(fields, sub="not_reproducible"), f"not_reproducible: two evaluations of model {name} on the same input differ after {hist + [ev]}"))
        return w

    def key(w):
        return _key(w)

    res = lifecycle.bfs_local(build, lambda w: _events(w, tier), _apply, key, on_transition, depth, max_states=1500 if tier == "quick" else 6000)
    for w in worlds:
        _cleanup(w)
    _purge_globals()
    res.update(counters)
    return res, viol


# ---------------------------------------------------------------------------------------
# purity of library calls (E1)
# ---------------------------------------------------------------------------------------
def _sources(dtname):
    base = models.probe_input("lin", dtname, 0).reshape(6, 8).clone()  # (6,8)
    yield "contig", base.clone()
    yield "transposed", base.clone().t()
    yield "sliced", torch.cat([base, base], 0)[::2]
    yield "expanded", base[:1].clone().expand(6, 8)
    yield "colvec", base[:, :1].clone()
    # size ladder: sources of more than 2^20 elements (in-place / block-wise fast paths)
    i = torch.arange(1026 * 1025, dtype=torch.float64).reshape(1026, 1025)
    big = (torch.cos(i * 0.31) * (1.0 + (i % 3) * 0.4)).to(base.dtype)
    yield "big_contig", big
    yield "big_transposed", big.clone().t()


def _purity_task(task, out):
    from optimum.quanto import AbsmaxOptimizer, MaxOptimizer, absmax_scale, freeze, quantize, quantize_activation, quantize_weight

    dtname = task["dt"]
    dt = num.DTYPES[dtname]
    only = task.get("only")

    def run(label, srcs, fn, fields):
        c = [label]
        if only and only != c:
            return
        snaps = [(s, lifecycle.tensor_bytes(s), s._version) for s in srcs]
        out["evals"] += 1
        out["calls"] += 1
        out["points"] += 1
        out["nontrivial"] += 1
        case = dict(task, only=c)
        try:
            fn()
        except ValueError:
            pass
        except Exception as e:  # noqa
            out["violations"].append(violation(PID, case, dict(fields, sub="raised"), f"raised: {label}: {type(e).__name__}: {str(e)[:160]}"))
            return
        for s, b, v in snaps:
            if lifecycle.tensor_bytes(s) != b or s._version != v:
                out["violations"].append(violation(PID, case, dict(fields, sub="source_modified"), f"source_modified: {label} modified a float tensor it only reads (version {v}->{s._version})"))
                break

    for lname, src in _sources(dtname):
        for qname in ["qint8", "qfloat8_e4m3fn", "qfloat8_e5m2", "qint4", "qint2"]:
            qt = num.qt(qname)
            for axis in (0, -1):
                run(f"quantize_weight({qname},axis={axis},{lname})", [src], lambda: quantize_weight(src, qt, axis), {"kind": "purity", "fn": "quantize_weight", "layout": lname})
                if qt.bits < 8:
                    g = 2 if src.shape[0] == 6 else (27 if src.shape[axis] == 1026 else 25)
                    run(f"quantize_weight({qname},axis={axis},group={g},{lname})", [src], lambda: quantize_weight(src, qt, axis, g), {"kind": "purity", "fn": "quantize_weight", "layout": lname})
                    # every admissible group size of the small sources, including a single group spanning the whole reduced dimension
                    if src.shape[0] == 6:
                        red = src.numel() // src.shape[axis]
                        for g2 in [d for d in range(1, red + 1) if red % d == 0 and d != g]:
                            run(f"quantize_weight({qname},axis={axis},group={g2},{lname})", [src], lambda: quantize_weight(src, qt, axis, g2), {"kind": "purity", "fn": "quantize_weight", "layout": lname})
                    run(f"MaxOptimizer({qname},axis={axis},{lname})", [src], lambda: MaxOptimizer()(src, qt.bits, axis), {"kind": "purity", "fn": "optimizer", "layout": lname})
            if qt.bits == 8:
                for sv in (0.1, 0.0, 1.0):
                    sc = torch.tensor(sv, dtype=dt)
                    run(f"quantize_activation({qname},scale={sv},{lname})", [src, sc], lambda: quantize_activation(src, qt, sc), {"kind": "purity", "fn": "quantize_activation", "layout": lname, "scale": sv})
                    sca = torch.tensor([0.1, sv, 0.3, 0.2, 0.5, 0.7], dtype=dt).repeat(-(-src.shape[0] // 6))[: src.shape[0]].reshape(-1, 1)
                    from optimum.quanto.tensor.quantizers import SymmetricQuantizer

                    run(f"SymmetricQuantizer({qname},axis0 scale with {sv},{lname})", [src, sca], lambda: SymmetricQuantizer.apply(src, qt, 0, sca), {"kind": "purity", "fn": "SymmetricQuantizer", "layout": lname, "scale": sv})
                for axis in (None, 0, -1):
                    run(f"absmax_scale({qname},axis={axis},{lname})", [src], lambda: absmax_scale(src, qt, axis), {"kind": "purity", "fn": "absmax_scale", "layout": lname})
                    run(f"AbsmaxOptimizer(axis={axis},{lname})", [src], lambda: AbsmaxOptimizer()(src, 8, axis), {"kind": "purity", "fn": "optimizer", "layout": lname})
    # forward passes of quantized modules on large batches: the caller's batch and the module state stay untouched
    for wname, aname in (("qint8", "qint8"), ("qint4", "qfloat8_e4m3fn"), ("qfloat8_e4m3fn", None)):
        from optimum.quanto import Calibration

        lin = torch.nn.Sequential(torch.nn.Linear(1025, 1030), torch.nn.ReLU(), torch.nn.Linear(1030, 3))
        for k, p in enumerate(lin.parameters()):
            models._fill(p, k)
        lin = lin.to(dt).eval()
        kw = {"weights": num.qt(wname)}
        if aname:
            kw["activations"] = num.qt(aname)
        quantize(lin, **kw)
        i = torch.arange(1026 * 1025, dtype=torch.float64).reshape(1026, 1025)
        xb = (torch.cos(i * 0.17) * 2.0).to(dt)

        def fwd(calib):
            with torch.no_grad():
                if calib:
                    with Calibration():
                        lin(xb)
                else:
                    lin(xb)

        state = [p.data for p in lin.parameters()]
        run(f"calibrate(big,{wname},{aname})", [xb] + state, lambda: fwd(True), {"kind": "purity", "fn": "forward_big"})
        state = [p.data for p in lin.parameters()] + [b for b in lin.buffers()]
        run(f"forward(big,{wname},{aname})", [xb] + state, lambda: fwd(False), {"kind": "purity", "fn": "forward_big"})
        freeze(lin)
        state = [b for b in lin.buffers()] + [m.weight._data if not hasattr(m.weight._data, "_data") else m.weight._data._data for _, m in models.qmodules(lin)]
        run(f"forward_frozen(big,{wname},{aname})", [xb] + state, lambda: fwd(False), {"kind": "purity", "fn": "forward_big"})
    # quantize() / freeze(): the float parameters that are read must stay untouched
    for wname in models.WQ:
        for aname in (None, "qint8"):
            fm = models.build_float("mlp", dtname)
            params = [p for p in fm.parameters()]  # the Parameter objects themselves (a caller or a tied module may still hold them)
            kw = {"weights": num.qt(wname)}
            if aname:
                kw["activations"] = num.qt(aname)
            run(f"quantize(mlp,{wname},{aname})", params, lambda: quantize(fm, **kw), {"kind": "purity", "fn": "quantize"})
            # weight tying: an Embedding (never quantized) shares its weight with a Linear head
            emb = torch.nn.Embedding(12, 8).to(num.DTYPES[dtname])
            head = torch.nn.Linear(8, 12, bias=False).to(num.DTYPES[dtname])
            head.weight = emb.weight
            tied = torch.nn.ModuleDict({"emb": emb, "head": head})
            run(f"quantize(tied,{wname},{aname})", [emb.weight], lambda: quantize(tied, **kw), {"kind": "purity", "fn": "quantize_tied"})
            try:
                ok = tuple(tied["emb"].weight.shape) == (12, 8) and bool(torch.isfinite(tied["emb"](torch.tensor([1, 5]))).all())
            except Exception:
                ok = False
            if not ok and not (only and only != [f"quantize(tied,{wname},{aname})"]):
                out["violations"].append(violation(PID, dict(task, only=[f"quantize(tied,{wname},{aname})"]), {"kind": "purity", "fn": "quantize_tied", "sub": "source_modified"},
                                                   f"source_modified: after quantize() of a model with tied weights the Embedding sharing its weight with the Linear head is broken"))
            qm = models.build_quantized("mlp", dtname, wname, aname)
            wts = [m.weight.data for _, m in models.qmodules(qm)] + [m.bias.data for _, m in models.qmodules(qm) if m.bias is not None]
            run(f"freeze(mlp,{wname},{aname})", wts, lambda: freeze(qm), {"kind": "purity", "fn": "freeze"})


def plan(tier, seed):
    tasks = []
    for w in ("qint8", "qint4", "qfloat8_e4m3fn"):
        for a in ("qint8", "qfloat8_e4m3fn"):
            tasks.append({"kind": "faults", "cfg": {"w": w, "a": a, "dt": "float32"}, "tier": tier})
            if w == "qint8" or tier == "thorough":
                tasks.append({"kind": "faults", "cfg": {"w": w, "a": a, "dt": "float32", "A": "imul_t"}, "tier": tier})
    if tier == "thorough":
        tasks.append({"kind": "faults", "cfg": {"w": "qint8", "a": "qint8", "dt": "float16"}, "tier": tier})
    for dt in ("float32", "float16", "bfloat16"):
        tasks.append({"kind": "purity", "dt": dt})
    return tasks


def run_task(task):
    out = {"evals": 0, "nontrivial": 0, "points": 0, "calls": 0, "violations": [], "samples": [], "counters": {}}
    if task["kind"] == "purity":
        _purity_task(task, out)
        out["counters"]["purity_cases"] = out["evals"]
        out["samples"].append({"call": "quantize_activation(qfloat8_e5m2, scale=0.0, transposed source)", "check": "source and scale tensors bit-identical, _version unchanged"})
    else:
        res, viol = _explore(task["cfg"], task["tier"])
        out["violations"] = viol
        out["evals"] = res["transitions"]
        out["calls"] = res["transitions"]
        out["points"] = res["states"]
        out["nontrivial"] = res["nontrivial"]
        out["counters"] = {"faults_fired": res["faults_fired"], "events_in_context": res["in_context"], "exits": res["exits"], "fault_states": res["states"], "saturated": int(res["frontier_emptied"]), "unexpanded": res["unexpanded"]}
        out["samples"] = [{"config": task["cfg"], "history": h} for h in res["samples"]][:2]
    out["nviol"] = len(out["violations"])
    seen = {}
    for v in out["violations"]:
        seen.setdefault(str(sorted(v["fields"].items())), v)
    out["violations"] = list(seen.values())[:60]
    return out


def crash_violation(task, info):
    return [violation(PID, dict(task), {"sub": "worker_crash"}, f"worker_crash: signal {info.get('signal')} at {info.get('journal')}")]


def replay_task(case):
    if case.get("kind") == "purity":
        out = {"evals": 0, "nontrivial": 0, "points": 0, "calls": 0, "violations": [], "samples": [], "counters": {}}
        _purity_task(case, out)
        return out["violations"]
    return _explore(case["cfg"], case["tier"], only={"history": case["history"], "event": case["event"]})[1]


def coverage(agg, tier, tasks):
    from ..pool import HarnessError

    c = agg.counters
    for k in ("faults_fired", "events_in_context", "exits", "purity_cases"):
        if c.get(k, 0) == 0:
            raise HarnessError(f"vacuity guard: {k} == 0")
    return {
        "rule": RULE,
        "states": agg.points,
        "transitions": agg.calls,
        "traces_validated_against_impl": agg.calls,
        "exhaustive": True,
        "counters": dict(sorted(c.items())),
        "bounds": {"depth": 4 if tier == "quick" else 6, "max_faults": 2, "max_nesting": 2},
    }
