"""C02 - int2/int4 affine quantization error is at most half a step per group (E1)."""
import itertools

import torch

from .. import num, wq
from ..report import violation

PID = "C02"
LEVEL = "model_checking"
V9 = [-1000.0, -3.0, -1.0, -(2.0**-10), 0.0, 2.0**-10, 1.0, 3.0, 1000.0]
RULE = (
    "groups: (i) every tuple over V9={-1000,-3,-1,-2^-10,0,2^-10,1,3,1000} of length g in 1..4 (9^g groups), laid out as rows "
    "(axis 0), columns (axis -1) and as sub-row groups (group_size=g) on both axes; (ii) every assignment (<=2 groups) or "
    "every cyclic shift (more groups) of 14 degenerate classes {zeros,constant+-,one-sided+-,offset 2/9/200,straddling,"
    "single non-zero,alternating,tiny,mixed magnitude,big} over every shape of rank 1..4 (dims {1,2,3,4}; thorough adds 8 "
    "and group lengths 32/64/128) x axis {0,-1} x group_size {None}+divisors x bits {2,4} x dtype {f32,f16,bf16}. "
    "A group is non-trivial unless it is all-zero; distinct = distinct (config, group content) pairs."
)
ASSUMPTIONS = [
    "bound checked: |dq-x| <= step/2 + u*((2L+2)*step + 2|x|) + 32*min_subnormal with step=(hi-lo)/L, L=2^bits-1, [lo,hi] the hull of the group and 0; the rounding term is derived from one rounding each of scale, x/scale and scale*code",
    "magnitudes beyond 1000 and near the dtype limits are exercised by C16, not here",
    "reference grouping is index arithmetic independent of the library's group()/ungroup()",
]


def _divisors(n):
    return [d for d in range(1, n + 1) if n % d == 0]


def _configs(dims, max_numel):
    """(shape, axis, group_size) triples accepted by the library."""
    for rank in range(1, 5):
        for shape in itertools.product(dims, repeat=rank):
            numel = 1
            for d in shape:
                numel *= d
            if numel > max_numel:
                continue
            for axis in (0, -1):
                n = 1 if rank == 1 else numel // shape[axis]
                for gs in [None] + _divisors(n):
                    yield shape, axis, gs


def plan(tier, seed):
    tasks = []
    for bits in (2, 4):
        for dt in ("float32", "float16", "bfloat16"):
            for g in (1, 2, 3, 4):
                for arr in ("rows", "cols", "rowgroups", "colgroups"):
                    tasks.append({"kind": "v9", "bits": bits, "dt": dt, "g": g, "arr": arr})
            dims = (1, 2, 3, 4) if tier == "quick" else (1, 2, 3, 4, 8)
            cfgs = list(_configs(dims, 64 if tier == "quick" else 512))
            CH = 150
            for lo in range(0, len(cfgs), CH):
                tasks.append({"kind": "classes", "bits": bits, "dt": dt, "tier": tier, "lo": lo, "hi": min(len(cfgs), lo + CH)})
            for g in ((8, 32) if tier == "quick" else (8, 32, 64, 128)):
                tasks.append({"kind": "long", "bits": bits, "dt": dt, "g": g})
            tasks.append({"kind": "reuse", "bits": bits, "dt": dt})
            if dt != "bfloat16":
                tasks.append({"kind": "large", "bits": bits, "dt": dt, "tier": tier})
            tasks.append({"kind": "repeat", "bits": bits, "dt": dt, "n": 48 if tier == "quick" else 300})
            if dt != "bfloat16":
                tasks.append({"kind": "hot", "bits": bits, "dt": dt, "n": 80 if tier == "quick" else 400})
    return tasks


def _quant(x, bits, axis, gs):
    from optimum.quanto import quantize_weight

    return quantize_weight(x, num.qt("qint2" if bits == 2 else "qint4"), axis, gs)


def _eval(x, bits, axis, gs, dtname, case, fields, out, extra_scale_judge=False):
    out["evals"] += 1
    out["calls"] += 1
    try:
        q = _quant(x, bits, axis, gs)
    except Exception as e:  # noqa
        out["violations"].append(violation(PID, case, dict(fields, sub="raised"), f"raised: quantize_weight raised {type(e).__name__}: {e} for an admissible configuration"))
        return
    res = wq.affine_judge(x, q, bits, axis, gs, dtname)
    for sub, n, msg, extra in res:
        out["violations"].append(violation(PID, case, dict(fields, sub=sub, **extra), f"{sub}: {msg}", {"count": n}))


def _v9_task(task, out, only=None):
    bits, dtname, g, arr = task["bits"], task["dt"], task["g"], task["arr"]
    dt = num.DTYPES[dtname]
    table = torch.tensor(list(itertools.product(V9, repeat=g)), dtype=torch.float64)
    N = table.shape[0]
    if arr == "rows":
        shape, axis, gs = (N, g), 0, None
    elif arr == "cols":
        shape, axis, gs = (g, N), -1, None
    elif arr == "rowgroups":
        shape, axis, gs = (N // 3, 3 * g), 0, g
    else:
        shape, axis, gs = (3 * g, N // 3), -1, g
    x = wq.fill(shape, axis, gs, table, dt)
    fields = {"kind": "v9", "bits": bits, "dtype": dtname, "axis": axis, "grouped": gs is not None}
    before = len(out["violations"])
    _eval(x, bits, axis, gs, dtname, dict(task), fields, out)
    out["points"] += N
    out["nontrivial"] += N - 1
    out["evals"] += N - 1
    return len(out["violations"]) - before


def _assignments(ng, tier, numel=0):
    C = wq.CLASSES
    if len(C) ** ng <= 200:
        return list(itertools.product(range(len(C)), repeat=ng))
    if ng == 3 and tier == "thorough" and numel <= 32:
        return list(itertools.product(range(len(C)), repeat=3))
    return [tuple((k + s) % len(C) for k in range(ng)) for s in range(len(C))]


def _classes_task(task, out):
    bits, dtname, tier = task["bits"], task["dt"], task["tier"]
    dt = num.DTYPES[dtname]
    dims = (1, 2, 3, 4) if tier == "quick" else (1, 2, 3, 4, 8)
    cfgs = list(_configs(dims, 64 if tier == "quick" else 512))[task["lo"]:task["hi"]]
    only = task.get("only")
    for shape, axis, gs in cfgs:
        gid, pos, ng, gsz = wq.group_ids(shape, axis, gs)
        numel = 1
        for d in shape:
            numel *= d
        for asg in _assignments(ng, tier, numel):
            if only and only != [list(shape), axis, gs, list(asg)]:
                continue
            table = torch.stack([wq.gen_class(wq.CLASSES[c], gsz, dtname, k) for k, c in enumerate(asg)])
            x = wq.fill(shape, axis, gs, table, dt)
            fields = {"kind": "classes", "bits": bits, "dtype": dtname, "axis": axis, "grouped": gs is not None}
            case = dict(task, only=[list(shape), axis, gs, list(asg)])
            _eval(x, bits, axis, gs, dtname, case, fields, out)
            out["points"] += 1
            if any(wq.CLASSES[c] != "zeros" for c in asg):
                out["nontrivial"] += 1
            for c in asg:
                out["counters"]["class_" + wq.CLASSES[c]] = out["counters"].get("class_" + wq.CLASSES[c], 0) + 1


def _long_task(task, out):
    bits, dtname, g = task["bits"], task["dt"], task["g"]
    dt = num.DTYPES[dtname]
    C = wq.CLASSES
    only = task.get("only")
    for rows in (1, 2, 3):
        for axis in (0, -1):
            for gs in (None, g):
                per_row = 1 if gs is None else 2
                shape = (rows, g * per_row) if axis == 0 else (g * per_row, rows)
                ng = rows * per_row
                for s in range(len(C)):
                    asg = [(k + s) % len(C) for k in range(ng)]
                    if only and only != [rows, axis, gs, s]:
                        continue
                    table = torch.stack([wq.gen_class(C[c], g, dtname, k) for k, c in enumerate(asg)])
                    x = wq.fill(shape, axis, gs, table, dt)
                    fields = {"kind": "long", "bits": bits, "dtype": dtname, "axis": axis, "grouped": gs is not None}
                    case = dict(task, only=[rows, axis, gs, s])
                    _eval(x, bits, axis, gs, dtname, case, fields, out)
                    out["points"] += 1
                    out["nontrivial"] += 1


def _reuse_task(task, out):
    """Histories on ONE tensor object: quantize, modify the tensor in place, quantize again ... every result is judged against the
    tensor's current values (no scale / zero-point may be remembered from an earlier call)."""
    bits, dtname = task["bits"], task["dt"]
    dt = num.DTYPES[dtname]
    only = task.get("only")
    steps = ["mul0.25", "add3", "copy_new", "neg", "mul40"]
    for shape, axis, gs in [((4, 8), 0, None), ((4, 8), 0, 4), ((8, 4), -1, None), ((8, 4), -1, 2), ((2, 3, 4), 0, 6)]:
        gid, pos, ng, gsz = wq.group_ids(shape, axis, gs)
        for order in itertools.permutations(range(len(steps)), 3):
            if only and only != [list(shape), axis, gs, list(order)]:
                continue
            table = torch.stack([wq.gen_class(wq.CLASSES[(k * 3 + 8) % len(wq.CLASSES)], gsz, dtname, k) for k in range(ng)])
            x = wq.fill(shape, axis, gs, table, dt)
            hist = []
            for si in (None,) + order:
                if si is not None:
                    st = steps[si]
                    hist.append(st)
                    with torch.no_grad():
                        if st == "mul0.25":
                            x.mul_(0.25)
                        elif st == "add3":
                            x.add_(3.0)
                        elif st == "copy_new":
                            x.copy_(torch.flip(x, [0]) * 1.5 - 0.5)
                        elif st == "neg":
                            x.neg_()
                        else:
                            x.mul_(40.0)
                fields = {"kind": "reuse", "bits": bits, "dtype": dtname, "axis": axis, "grouped": gs is not None}
                case = dict(task, only=[list(shape), axis, gs, list(order)])
                before = len(out["violations"])
                _eval(x, bits, axis, gs, dtname, case, fields, out)
                if len(out["violations"]) > before:
                    out["violations"][-1]["msg"] += f" (same tensor object re-quantized after in-place steps {hist})"
                    break
            out["points"] += 1
            out["nontrivial"] += 1


def _large_task(task, out):
    """Size ladder far beyond the exhaustive bound: weights of 2^18 .. 2^22 elements with non power-of-two dimensions and group
    counts; several tensors are quantized and dequantized first and only then judged (results must not share buffers)."""
    bits, dtname = task["bits"], task["dt"]
    dt = num.DTYPES[dtname]
    cfgs = [((4101, 1024), 0, None), ((1000, 2048), 0, 128), ((2048, 1024), 0, 128), ((1030, 260), -1, None), ((64, 11008), 0, None), ((70, 9001), 0, None)]
    if task["tier"] == "thorough":
        cfgs += [((11008, 512), 0, 128), ((4099, 1056), 0, 96), ((520, 4100), -1, 130), ((3001, 2048), 0, 64), ((8193, 1024), 0, None), ((4100, 4224), 0, 128)]
    only = task.get("only")
    base = torch.stack([wq.gen_class(c, 16, dtname, k) for k, c in enumerate(wq.CLASSES)])  # (14, 16)
    for ci, (shape, axis, gs) in enumerate(cfgs):
        if only and only != [ci]:
            continue
        gid, pos, ng, gsz = wq.group_ids(shape, axis, gs)
        held = []
        for rep in range(2):
            # group k holds class (k + rep) % 14, repeated along the group (period 16)
            # (a group-dependent factor makes the content aperiodic: rows 14 apart would otherwise be identical and a block that
            # lands on the wrong rows, or stale content of the right period, would go unnoticed)
            x = base[(gid + rep) % len(wq.CLASSES), pos % 16] * (1.0 + ((gid * 37) % 101).to(torch.float64) / 128.0)
            # the extremes of every group sit in its tail (a range reduction that drops a partial last window under-estimates)
            x = torch.where(pos >= gsz - 3, x * 3.0, x).to(dt)
            try:
                num.poison(x.numel() * x.element_size(), x.numel())
                q = _quant(x, bits, axis, gs)
                num.poison(x.numel() * x.element_size())
                held.append((x, q, q.dequantize()))
            except Exception as e:  # noqa
                out["violations"].append(violation(PID, dict(task, only=[ci]), {"kind": "large", "bits": bits, "dtype": dtname, "sub": "raised"}, f"raised: large quantize_weight {shape} axis {axis} group {gs}: {type(e).__name__}: {e}"))
                held = []
                break
        for rep, (x, q, dq_first) in enumerate(held):
            fields = {"kind": "large", "bits": bits, "dtype": dtname, "axis": axis, "grouped": gs is not None}
            case = dict(task, only=[ci])
            out["evals"] += 1
            out["calls"] += 1
            out["points"] += 1
            out["nontrivial"] += 1
            # the result obtained before the other tensor was dequantized is judged as it is now (shared work buffers)
            for sub, n, msg, extra in wq.affine_judge(x, q, bits, axis, gs, dtname, idempotence=False, dq=dq_first):
                out["violations"].append(violation(PID, case, dict(fields, sub="held_" + sub, **extra), f"held_{sub}: the dequantized tensor #{rep} obtained before another large dequantization: {shape} axis {axis} group {gs}: {msg}", {"count": n}))
            for sub, n, msg, extra in wq.affine_judge(x, q, bits, axis, gs, dtname, idempotence=(rep == 0)):
                out["violations"].append(violation(PID, case, dict(fields, sub=sub, **extra), f"{sub}: large {shape} axis {axis} group {gs}: {msg}", {"count": n}))


def _repeat_task(task, out):
    """Repetition ladder: n same-shaped tensors are quantized and dequantized, all results are kept and judged at the end."""
    bits, dtname, n = task["bits"], task["dt"], task["n"]
    dt = num.DTYPES[dtname]
    only = task.get("only")
    for shape, axis, gs in (((4, 8), 0, None), ((4, 8), 0, 4), ((8, 4), -1, 2)):
        c = [list(shape), axis, gs]
        if only and only != c:
            continue
        fields = {"kind": "repeat", "bits": bits, "dtype": dtname, "axis": axis, "grouped": gs is not None}
        case = dict(task, only=c)
        gid, pos, ng, gsz = wq.group_ids(shape, axis, gs)
        held = []
        out["evals"] += 1
        out["points"] += 1
        out["nontrivial"] += 1
        try:
            for i in range(n):
                table = torch.stack([wq.gen_class(wq.CLASSES[(i + k) % len(wq.CLASSES)], gsz, dtname, i + k) for k in range(ng)])
                x = wq.fill(shape, axis, gs, table, dt)
                q = _quant(x, bits, axis, gs)
                d = q.dequantize()
                out["calls"] += 1
                held.append((i, x, q, d, d.clone()))
        except Exception as e:  # noqa
            out["violations"].append(violation(PID, case, dict(fields, sub="raised"), f"raised: repetition ladder {c}: {type(e).__name__}: {e}"))
            continue
        for i, x, q, d, snap in held:
            if not num.same_bits(d, snap):
                out["violations"].append(violation(PID, case, dict(fields, sub="result_overwritten"), f"result_overwritten: the dequantized tensor #{i + 1} of {n} changed after later same-shaped dequantizations ({c})"))
                break
            bad = False
            for sub, cnt, msg, extra in wq.affine_judge(x, q, bits, axis, gs, dtname, idempotence=False, dq=d):
                out["violations"].append(violation(PID, case, dict(fields, sub="held_" + sub, **extra), f"held_{sub}: result #{i + 1} of {n} judged after all calls ran ({c}): {msg}", {"count": cnt}))
                bad = True
            if bad:
                break


def _hot_task(task, out):
    """Repetition ladder with state carried between different tensors: (a) many quantizations of one shape, then another shape
    with the same number of elements and group size (caches keyed on too little); (b) one tensor object quantized many times,
    then updated in place (through .data, through an in-place op, through copy_) and quantized again (memos that go stale)."""
    bits, dtname, n = task["bits"], task["dt"], task["n"]
    dt = num.DTYPES[dtname]
    only = task.get("only")
    base = torch.stack([wq.gen_class(c, 16, dtname, k) for k, c in enumerate(wq.CLASSES)])

    def mk(shape, axis, gs, k):
        gid, pos, ng, gsz = wq.group_ids(shape, axis, gs)
        return base[(gid + k) % len(wq.CLASSES), pos % 16].to(dt)

    for axis, gs, s1, s2 in ((-1, 64, (512, 128), (128, 512)), (0, 64, (128, 512), (512, 128)), (-1, None, (300, 220), (220, 300))):
        c = ["shapes", axis, gs]
        if only and only != c:
            continue
        fields = {"kind": "hot", "bits": bits, "dtype": dtname, "axis": axis, "grouped": gs is not None}
        case = dict(task, only=c)
        out["evals"] += 1
        out["points"] += 1
        out["nontrivial"] += 1
        try:
            for i in range(n):
                _quant(mk(s1, axis, gs, i), bits, axis, gs)
                out["calls"] += 1
            for shape in (s2, s1, s2):
                x = mk(shape, axis, gs, 3)
                q = _quant(x, bits, axis, gs)
                for sub, cnt, msg, extra in wq.affine_judge(x, q, bits, axis, gs, dtname, idempotence=False):
                    out["violations"].append(violation(PID, case, dict(fields, sub="hot_" + sub, **extra), f"hot_{sub}: shape {shape} quantized after {n} quantizations of shape {s1} (axis {axis}, group {gs}): {msg}", {"count": cnt}))
        except Exception as e:  # noqa
            out["violations"].append(violation(PID, case, dict(fields, sub="raised"), f"raised: hot-layout ladder {c}: {type(e).__name__}: {e}"))
    for how in ("data_mul", "inplace_mul", "copy", "data_copy"):
        c = ["same_object", how]
        if only and only != c:
            continue
        fields = {"kind": "hot", "bits": bits, "dtype": dtname, "axis": 0, "grouped": True, "update": how}
        case = dict(task, only=c)
        out["evals"] += 1
        out["points"] += 1
        out["nontrivial"] += 1
        try:
            x = mk((8, 64), 0, 32, 0)
            with torch.no_grad():
                for i in range(2 * n):
                    _quant(x, bits, 0, 32)
                    out["calls"] += 1
                other = mk((8, 64), 0, 32, 5) * 4.0
                if how == "data_mul":
                    x.data.mul_(4.0)
                elif how == "inplace_mul":
                    x.mul_(4.0)
                elif how == "copy":
                    x.copy_(other)
                else:
                    x.data.copy_(other)
                q = _quant(x, bits, 0, 32)
            for sub, cnt, msg, extra in wq.affine_judge(x, q, bits, 0, 32, dtname, idempotence=False):
                out["violations"].append(violation(PID, case, dict(fields, sub="stale_" + sub, **extra), f"stale_{sub}: tensor quantized {2 * n} times, then updated in place ({how}) and quantized again: {msg}", {"count": cnt}))
        except Exception as e:  # noqa
            out["violations"].append(violation(PID, case, dict(fields, sub="raised"), f"raised: same-object ladder {c}: {type(e).__name__}: {e}"))


def run_task(task):
    out = {"evals": 0, "nontrivial": 0, "points": 0, "calls": 0, "violations": [], "samples": [], "counters": {}}
    if task["kind"] == "hot":
        _hot_task(task, out)
    elif task["kind"] == "repeat":
        _repeat_task(task, out)
    elif task["kind"] == "large":
        _large_task(task, out)
        out["samples"].append({"kind": "large", "shape": [4101, 1024], "axis": 0, "group_size": None, "note": "two tensors quantized+dequantized, then both judged"})
    elif task["kind"] == "reuse":
        _reuse_task(task, out)
        out["samples"].append({"kind": "reuse", "shape": [4, 8], "axis": 0, "group_size": 4, "history": ["quantize", "x.mul_(0.25)", "quantize", "x.add_(3)", "quantize"]})
    elif task["kind"] == "v9":
        _v9_task(task, out)
        out["samples"].append(dict(task, example_group=[-1000.0, 2.0**-10, 1.0, 3.0][: task["g"]]))
    elif task["kind"] == "classes":
        _classes_task(task, out)
        out["samples"].append({"kind": "classes", "shape": [2, 4], "axis": 0, "group_size": 2, "classes": ["const_pos", "offset9", "zeros", "straddle"]})
    else:
        _long_task(task, out)
    out["nviol"] = len(out["violations"])
    # keep one representative per class of violation to bound the message size
    seen = {}
    for v in out["violations"]:
        seen.setdefault(str(sorted(v["fields"].items())), v)
    out["violations"] = list(seen.values())[:40]
    return out


def replay_task(case):
    out = {"evals": 0, "nontrivial": 0, "points": 0, "calls": 0, "violations": [], "samples": [], "counters": {}}
    if case["kind"] == "hot":
        _hot_task(case, out)
    elif case["kind"] == "repeat":
        _repeat_task(case, out)
    elif case["kind"] == "large":
        _large_task(case, out)
    elif case["kind"] == "reuse":
        _reuse_task(case, out)
    elif case["kind"] == "v9":
        _v9_task(case, out)
    elif case["kind"] == "classes":
        _classes_task(case, out)
    else:
        _long_task(case, out)
    return out["violations"]


def coverage(agg, tier, tasks):
    from ..pool import HarnessError

    for c in wq.CLASSES:
        if agg.counters.get("class_" + c, 0) == 0:
            raise HarnessError(f"vacuity guard: class {c} never generated")
    return {
        "rule": RULE,
        "states": agg.points,
        "transitions": agg.calls,
        "traces_validated_against_impl": agg.calls,
        "exhaustive": True,
        "counters": dict(sorted(agg.counters.items())),
    }
