"""C04 - sub-byte packing is lossless, dense, and identical across unpack kernels.

E1 finite-domain enumeration on the real code (PackedTensor, quanto::unpack routing,
quanto_py::unpack, compiled quanto_ext::unpack) + a small explicit-state exploration of
PackedTensor life-cycle programs (detach / to / flatten-unflatten / state_dict).
"""
import itertools
import warnings

import torch

from .. import loader
from ..report import violation

PID = "C04"
LEVEL = "model_checking"
RULE = (
    "Cartesian product bits{2,4} x leading dim L x trailing shape x input layout x value family; the 'allbytes' family "
    "has shape (L,256,*trail) so that every packed byte position takes every one of the 256 byte values; kernel "
    "equivalence enumerates all 256 byte values x shapes x layouts x 4 routes; a case is non-trivial when at least two "
    "source rows share a packed byte (L>=2) and the source has >=2 distinct values; PackedTensor programs: BFS over "
    "{detach,to(cpu),to(uint8),flatten/unflatten,state_dict round trip,.data} to depth 3"
)
ASSUMPTIONS = [
    "unpack.cu / unpack.mm (CUDA/MPS kernels) cannot run in this sandbox; only the python and C++ kernels are compared",
    "the C++ kernel is rebuilt with g++ -O1 from the working tree sources (ninja is absent so quanto cannot build it itself)",
    "leading dims and trailing shapes beyond the stated bound are not covered",
]

TRAILS = [(), (1,), (3,), (2, 3), (2, 1, 2)]
LAYOUTS = ["contig", "transposed", "step2", "expanded0"]
_lib = None


def _ensure():
    global _lib
    if _lib is None:
        _lib = loader.inject_cpp_ext()
    return _lib


def prepare(ctx):
    # build the compiled kernel once, in the master, before the workers need it
    loader.build_cpp_ext()


def plan(tier, seed):
    maxL = 17 if tier == "quick" else 72
    tasks = []
    for bits in (2, 4):
        for L in range(1, maxL + 1):
            tasks.append({"kind": "roundtrip", "bits": bits, "L": L})
    shapes = [(1,), (2,), (7,), (1, 1), (3, 5), (8, 2), (2, 3, 4), (1, 4, 1)]
    if tier == "thorough":
        shapes += [(33,), (16, 16), (5, 1, 7), (2, 2, 2, 2), (64, 3)]
    for bits in (2, 4):
        for shp in shapes:
            tasks.append({"kind": "kernels", "bits": bits, "shape": list(shp)})
    # size ladder: payloads around 2^16 .. 2^22 elements with non power-of-two dimensions (tiling / blocking / caching code paths)
    big = [(65537, 3), (4099, 521), (131075, 8)] if tier == "quick" else [(65537, 3), (4099, 521), (131075, 8), (16385, 129), (4096, 2817), (1048579, 2), (3, 1048583), (4100, 4224), (32771, 1031), (16385, 4096)]
    for bits in (2, 4):
        for shp in big:
            tasks.append({"kind": "large", "bits": bits, "shape": list(shp)})
        tasks.append({"kind": "repeat", "bits": bits, "n": 80 if tier == "quick" else 600})
    for bits in (2, 4):
        tasks.append({"kind": "ops", "bits": bits, "maxL": 9 if tier == "quick" else 19})
        tasks.append({"kind": "programs", "bits": bits, "depth": 3 if tier == "quick" else 4})
    return tasks


# ---------------------------------------------------------------------------------------
# input construction
# ---------------------------------------------------------------------------------------
def _values(family, bits, L, trail):
    """uint8 tensor of shape (L, [256,] *trail) with values < 2**bits (reference arithmetic on Python ints)."""
    vpi = 8 // bits
    rows = (L + vpi - 1) // vpi
    mask = (1 << bits) - 1
    ntrail = 1
    for d in trail:
        ntrail *= d
    if family == "allbytes":
        shape = (L, 256) + tuple(trail)
        out = torch.empty((L, 256, ntrail), dtype=torch.uint8)
        for j in range(L):
            i, r = divmod(j, rows)
            c = torch.arange(256, dtype=torch.int64).view(256, 1)
            k = torch.arange(ntrail, dtype=torch.int64).view(1, ntrail)
            byte = (c + 37 * r + 101 * k) % 256
            out[j] = ((byte >> (bits * i)) & mask).to(torch.uint8)
        return out.reshape(shape)
    if family == "tagged":
        shape = (L,) + tuple(trail)
        n = L * ntrail
        v = (torch.arange(n, dtype=torch.int64) * 7 + 3) % (mask + 1)
        return v.to(torch.uint8).reshape(shape)
    if family == "max":
        return torch.full((L,) + tuple(trail), mask, dtype=torch.uint8)
    raise ValueError(family)


def _layout(t, layout):
    """Return a tensor equal to t but with the requested memory layout (or None if not applicable)."""
    if layout == "contig":
        return t.clone()
    if layout == "transposed":
        if t.ndim < 2:
            return None
        perm = list(range(t.ndim))[::-1]
        base = t.permute(perm).contiguous()
        out = base.permute(perm)
        assert out.shape == t.shape
        return out
    if layout == "step2":
        base = torch.zeros((t.shape[0] * 2,) + tuple(t.shape[1:]), dtype=t.dtype)
        base[::2] = t
        base[1::2] = 255  # poison: must never be read
        return base[::2]
    if layout == "expanded0":
        # stride-0 along a trailing unit dim
        if t.ndim < 2 or t.shape[-1] != 1:
            return None
        return t.clone().expand(t.shape)
    raise ValueError(layout)


def _ref_unpack(packed, bits):
    """Independent per-element reference: out[i*R + r] = (packed[r] >> bits*i) & mask."""
    vpi = 8 // bits
    mask = (1 << bits) - 1
    p = packed.to(torch.int64)
    parts = [((p // (1 << (bits * i))) % (mask + 1)) for i in range(vpi)]
    return torch.cat(parts, 0).to(torch.uint8)


# ---------------------------------------------------------------------------------------
def _roundtrip_case(case):
    from optimum.quanto.tensor.qbits.packed import PackedTensor

    bits, L, trail, layout, family = case["bits"], case["L"], tuple(case["trail"]), case["layout"], case["family"]
    vpi = 8 // bits
    fields = {"kind": "roundtrip", "bits": bits, "L_mod": L % vpi, "layout": layout, "family": family}
    t0 = _values(family, bits, L, trail)
    t = _layout(t0, layout)
    if t is None:
        return None, []
    vs = []

    def bad(msg, **d):
        vs.append(violation(PID, case, fields, msg, d))

    with warnings.catch_warnings(record=True) as w:
        warnings.simplefilter("always")
        try:
            p = PackedTensor.pack(t, bits)
            u = p.unpack()
        except Exception as e:  # noqa
            bad(f"pack/unpack raised: {type(e).__name__}: {e}")
            return True, vs
    fb = [str(x.message) for x in w if "Falling back" in str(x.message)]
    if fb:
        bad("compiled kernel fell back to python: " + fb[0][:200])
    exp_rows = -(-L * bits // 8)
    inner = p._data
    if type(inner) is not torch.Tensor or inner.dtype != torch.uint8:
        bad(f"payload is {type(inner).__name__}/{inner.dtype}, expected plain uint8 tensor")
    if tuple(inner.shape) != (exp_rows,) + tuple(t.shape[1:]):
        bad(f"payload shape {tuple(inner.shape)} != dense {(exp_rows,) + tuple(t.shape[1:])}")
    if tuple(p.shape) != tuple(t.shape) or p.dtype != torch.uint8:
        bad(f"packed tensor reports shape {tuple(p.shape)} dtype {p.dtype}, source {tuple(t.shape)}")
    if u.dtype != torch.uint8 or tuple(u.shape) != tuple(t.shape):
        bad(f"unpacked is {u.dtype}{tuple(u.shape)}, source uint8{tuple(t.shape)}")
    elif not torch.equal(u, t0):
        idx = (u != t0).nonzero()[0].tolist()
        bad(f"unpack(pack(t)) != t: first mismatch at {idx}", got=int(u[tuple(idx)]), want=int(t0[tuple(idx)]))
    # the packed tensor owns its payload: overwriting the source afterwards must not change what it decodes to
    if t.is_contiguous() and t.numel() > 0 and not vs and t.data_ptr() != t0.data_ptr():
        try:
            t.fill_(0 if int(t0.flatten()[0]) != 0 else 1)
            u2 = p.unpack()
            if not torch.equal(u2, t0):
                bad("packed tensor aliases its source: overwriting the source tensor after pack() changed unpack()")
        except Exception as e:  # noqa
            bad(f"unpack after overwriting the source raised {type(e).__name__}: {e}")
    # the payload must decode with the independent reference as well
    if type(inner) is torch.Tensor and inner.dtype == torch.uint8 and inner.shape[0] == exp_rows:
        r = _ref_unpack(inner, bits)[:L]
        if r.shape == t0.shape and not torch.equal(r, t0):
            bad("payload does not decode to the source with the reference bit arithmetic")
    return True, vs


def _kernel_case(case):
    """All 256 byte values x shape x layouts x 4 routes."""
    from optimum.quanto.library.ops import disable_extensions

    lib = _ensure()
    bits, shape = case["bits"], tuple(case["shape"])
    n = 1
    for d in shape:
        n *= d
    vs = []
    evals = 0
    routes_hit = {}
    for offset in range(0, 256, max(1, n)) if n < 256 else [0]:
        pass
    # every byte value appears at every position: position p of variant k holds (p*41 + k) % 256
    pos = torch.arange(n, dtype=torch.int64)
    for k in range(256):
        base = ((pos * 41 + k) % 256).to(torch.uint8).reshape(shape)
        for layout in ("contig", "transposed", "step2"):
            x = _layout(base, layout)
            if x is None:
                continue
            ref = _ref_unpack(base, bits)
            fields = {"kind": "kernels", "bits": bits, "layout": layout}
            outs = {}
            calls0 = lib.calls
            with warnings.catch_warnings(record=True) as w:
                warnings.simplefilter("always")
                for route in ("quanto", "quanto_disabled", "quanto_py", "quanto_ext"):
                    try:
                        if route == "quanto":
                            o = torch.ops.quanto.unpack(x, bits)
                        elif route == "quanto_disabled":
                            with disable_extensions():
                                o = torch.ops.quanto.unpack(x, bits)
                        elif route == "quanto_py":
                            o = torch.ops.quanto_py.unpack(x, bits)
                        else:
                            o = torch.ops.quanto_ext.unpack(x, bits)
                        outs[route] = o
                    except Exception as e:  # noqa
                        f = dict(fields, route=route)
                        vs.append(violation(PID, dict(case, k=k, layout=layout), f, f"route {route} raised: {type(e).__name__}: {e}"))
            fb = [str(m.message) for m in w if "Falling back" in str(m.message)]
            if fb:
                f = dict(fields, route="quanto")
                vs.append(violation(PID, dict(case, k=k, layout=layout), f, "compiled kernel fell back: " + fb[0][:200]))
            if lib.calls - calls0 != 2 and not fb:
                raise RuntimeError(f"vacuity guard: compiled kernel ran {lib.calls - calls0} times, expected 2")
            for route, o in outs.items():
                evals += 1
                routes_hit[route] = routes_hit.get(route, 0) + 1
                if o.dtype != torch.uint8 or o.shape != ref.shape or not torch.equal(o, ref):
                    f = dict(fields, route=route)
                    vs.append(
                        violation(PID, dict(case, k=k, layout=layout), f, f"route {route} differs from reference unpack",
                                  {"got_shape": tuple(o.shape), "got_dtype": o.dtype})
                    )
    return evals, vs, routes_hit


from ..num import poison as num_poison


def _large_case(case):
    """Round trip and kernel equivalence far beyond the exhaustive bound (values are a position-dependent pattern)."""
    from optimum.quanto.library.ops import disable_extensions
    from optimum.quanto.tensor.qbits.packed import PackedTensor

    bits, shape = case["bits"], tuple(case["shape"])
    fields = {"kind": "large", "bits": bits}
    vs = []
    n = shape[0] * shape[1]
    i = torch.arange(n, dtype=torch.int64)
    t = ((((i * 2654435761) >> 13) + (i >> 7) + (i >> 17)) % (1 << bits)).to(torch.uint8).reshape(shape)  # not periodic in the flat index
    held = []
    for rep in range(2):  # two tensors of the same shape, results held and compared afterwards (shared-buffer reuse)
        tt = (t + rep) % (1 << bits)
        num_poison(n, -(-n * bits // 8))
        p = PackedTensor.pack(tt.clone(), bits)
        num_poison(n)
        held.append((tt, p, p.unpack()))
    for tt, p, u in held:
        if tuple(p._data.shape) != (-(-shape[0] * bits // 8), shape[1]):
            vs.append(violation(PID, case, fields, f"large: payload shape {tuple(p._data.shape)} for source {shape}"))
        if u.shape != tt.shape or not torch.equal(u, tt) or not torch.equal(p.unpack(), tt):
            vs.append(violation(PID, case, fields, f"large: unpack(pack(t)) != t for shape {shape} bits {bits}"))
            break
        ref = _ref_unpack(p._data, bits)
        outs = {"quanto": torch.ops.quanto.unpack(p._data, bits), "quanto_py": torch.ops.quanto_py.unpack(p._data, bits), "quanto_ext": torch.ops.quanto_ext.unpack(p._data, bits)}
        with disable_extensions():
            outs["quanto_disabled"] = torch.ops.quanto.unpack(p._data, bits)
        for r, o in outs.items():
            if o.shape != ref.shape or not torch.equal(o, ref):
                vs.append(violation(PID, case, dict(fields, route=r), f"large: route {r} differs from the reference unpack for payload {tuple(p._data.shape)} bits {bits}"))
    return 8, vs


def _repeat_case(case):
    """Repetition ladder: n same-shaped tensors are packed and unpacked, every result is kept and compared at the end."""
    from optimum.quanto.tensor.qbits.packed import PackedTensor

    bits, n = case["bits"], case["n"]
    fields = {"kind": "repeat", "bits": bits}
    vs = []
    held = []
    for shape in ((5, 8), (16, 3)):
        for i in range(n):
            t = ((torch.arange(shape[0] * shape[1]) * 5 + i) % (1 << bits)).to(torch.uint8).reshape(shape)
            p = PackedTensor.pack(t.clone(), bits)
            u = p.unpack()
            held.append((i, t, p, u))
    for i, t, p, u in held:
        if not torch.equal(u, t) or not torch.equal(p.unpack(), t):
            vs.append(violation(PID, case, fields, f"repeat: result #{i + 1} of {n} same-shaped pack/unpack calls no longer equals its source after the later calls (shape {tuple(t.shape)} bits {bits})"))
            break
    # one packed tensor unpacked many times (a frozen weight evaluated at every forward pass); the caller owns each result
    t = ((torch.arange(40) * 3) % (1 << bits)).to(torch.uint8).reshape(5, 8)
    p = PackedTensor.pack(t.clone(), bits)
    m = case.get("same", 4 * n)
    for i in range(m):
        u = p.unpack()
        if not torch.equal(u, t):
            vs.append(violation(PID, case, dict(fields, sub="same_instance"), f"repeat: unpack #{i + 1} of the same packed tensor differs from its source (results of earlier calls had been modified in place by the caller; bits {bits})"))
            break
        u.add_(1)
    return len(held) * 2 + m, vs


def _ops_case(case):
    """op(packed) must equal op(unpacked) for a menu of tensor operations."""
    from optimum.quanto.tensor.qbits.packed import PackedTensor

    bits = case["bits"]
    vs = []
    evals = 0
    ops = {
        "eq": lambda a, b: a == b,
        "add": lambda a, b: a + 1,
        "sum": lambda a, b: a.sum(),
        "sum0": lambda a, b: a.sum(0),
        "reshape": lambda a, b: a.reshape(-1),
        "index": lambda a, b: a[0],
        "index_last": lambda a, b: a[-1],
        "slice": lambda a, b: a[1:],
        "slice_step": lambda a, b: a[::2],
        "clone": lambda a, b: a.clone(),
        "to_int32": lambda a, b: a.to(torch.int32),
        "to_float": lambda a, b: a.to(torch.float32),
        "t": lambda a, b: a.t() if a.ndim == 2 else a,
        "cat": lambda a, b: torch.cat([a, b]),
        "mul": lambda a, b: a * b,
        "max": lambda a, b: a.max(),
        "equal": lambda a, b: torch.equal(a, b),
        "numpy": lambda a, b: a.numpy().tolist(),
    }
    # binary operations between two packed tensors, including pairs whose payloads have the same number of packed rows
    # but whose unpacked leading dimensions differ (the longer one padded with zero rows)
    for L in range(1, case["maxL"] + 1):
        for L2 in range(L, min(case["maxL"], L + 8 // bits) + 1):
            for name, fn in (("equal_pp", lambda a, b: torch.equal(a, b)), ("eq_pp", lambda a, b: (a == b) if a.shape == b.shape else None),
                             ("add_pp", lambda a, b: (a + b) if a.shape == b.shape else None)):
                only = case.get("only")
                if only and (only["op"] != name or only["L"] != L or only.get("L2") != L2):
                    continue
                t1 = _values("tagged", bits, L, (3,))
                t2 = torch.zeros((L2, 3), dtype=torch.uint8)
                t2[:L] = t1
                if name != "equal_pp" and L2 == L:
                    t2 = (t2 + 1) % (1 << bits)
                try:
                    ref = fn(t1, t2)
                except Exception:
                    continue
                if ref is None:
                    continue
                evals += 1
                fields = {"kind": "ops", "bits": bits, "op": name}
                c = dict(case, only={"op": name, "L": L, "L2": L2, "trail": [3]})
                try:
                    got = fn(PackedTensor.pack(t1.clone(), bits), PackedTensor.pack(t2.clone(), bits))
                except Exception as e:  # noqa
                    vs.append(violation(PID, c, fields, f"op {name} on two packed tensors (L={L},{L2}) raised {type(e).__name__}: {e}"))
                    continue
                if isinstance(got, PackedTensor):
                    got = got.unpack()
                same = (got == ref) if not isinstance(ref, torch.Tensor) else (isinstance(got, torch.Tensor) and got.shape == ref.shape and torch.equal(got, ref))
                if not same:
                    vs.append(violation(PID, c, fields, f"op {name} on two packed tensors with leading dims {L} and {L2}: result differs from the result on unpacked values"))
    for L in range(1, case["maxL"] + 1):
        for trail in [(), (3,), (2, 2)]:
            t = _values("tagged", bits, L, trail)
            p = PackedTensor.pack(t.clone(), bits)
            for name, fn in ops.items():
                only = case.get("only")
                if only and (only["op"] != name or only["L"] != L or list(trail) != only["trail"]):
                    continue
                evals += 1
                fields = {"kind": "ops", "bits": bits, "op": name}
                c = dict(case, only={"op": name, "L": L, "trail": list(trail)})
                try:
                    ref = fn(t, t)
                except Exception:
                    continue
                try:
                    got = fn(p, t)
                except ValueError as e:
                    if name in ("to_int32", "to_float"):
                        continue  # documented refusal of a dtype change
                    vs.append(violation(PID, c, fields, f"op {name} on packed raised ValueError: {e}"))
                    continue
                except Exception as e:  # noqa
                    vs.append(violation(PID, c, fields, f"op {name} on packed raised {type(e).__name__}: {e}"))
                    continue
                if isinstance(got, PackedTensor):
                    got = got.unpack()
                if isinstance(ref, torch.Tensor):
                    okv = isinstance(got, torch.Tensor) and got.shape == ref.shape and got.dtype == ref.dtype and torch.equal(got, ref)
                else:
                    okv = got == ref
                if not okv:
                    vs.append(violation(PID, c, fields, f"op {name}: result on packed tensor differs from result on unpacked values"))
    return evals, vs


# deepcopy of a PackedTensor is not a dispatched tensor operation (torch needs clone() to return the subclass);
# copying frozen models is judged by C09, not here.
_PROG_EVENTS = ["detach", "to_cpu", "to_uint8", "flatten", "state_dict", "data"]


def _apply_event(p, ev):
    import copy

    from optimum.quanto.tensor.qbits.packed import PackedTensor

    if ev == "detach":
        return p.detach()
    if ev == "to_cpu":
        return p.to("cpu")
    if ev == "to_uint8":
        return p.to(torch.uint8)
    if ev == "flatten":
        names, meta = p.__tensor_flatten__()
        inner = {n: getattr(p, n) for n in names}
        return PackedTensor.__tensor_unflatten__(inner, dict(meta), None, None)
    if ev == "state_dict":
        names, meta = p.__tensor_flatten__()
        sd = {"w." + n: getattr(p, n) for n in names}
        sd.update({"w." + k: v for k, v in meta.items()})
        out = PackedTensor.load_from_state_dict(sd, "w.")
        if sd:
            raise AssertionError(f"keys left in state dict: {list(sd)}")
        return out
    if ev == "deepcopy":
        return copy.deepcopy(p)
    if ev == "data":
        return p.data
    raise ValueError(ev)


def _programs_case(case):
    """BFS over life-cycle programs of a PackedTensor; invariant: still decodes to the source, dense payload."""
    from optimum.quanto.tensor.qbits.packed import PackedTensor

    bits, depth = case["bits"], case["depth"]
    vs = []
    states = 0
    trans = 0
    only = case.get("program")
    for L, trail in [(5, (3,)), (8, ()), (3, (2, 2))]:
        t = _values("tagged", bits, L, trail)
        progs = [tuple(only)] if only is not None else itertools.chain.from_iterable(
            itertools.product(_PROG_EVENTS, repeat=d) for d in range(1, depth + 1)
        )
        for prog in progs:
            p = PackedTensor.pack(t.clone(), bits)
            states += 1
            fields = {"kind": "programs", "bits": bits, "last": prog[-1]}
            c = dict(case, program=list(prog))
            try:
                for ev in prog:
                    p = _apply_event(p, ev)
                    trans += 1
                ok = (
                    isinstance(p, PackedTensor)
                    and tuple(p.shape) == tuple(t.shape)
                    and p._bits == bits
                    and tuple(p._data.shape) == (-(-L * bits // 8),) + tuple(t.shape[1:])
                    and torch.equal(p.unpack(), t)
                )
                if not ok:
                    vs.append(violation(PID, c, fields, f"after program {list(prog)} the packed tensor no longer decodes to the source / dense payload"))
            except Exception as e:  # noqa
                vs.append(violation(PID, c, fields, f"program {list(prog)} raised {type(e).__name__}: {e}"))
    return states, trans, vs


# ---------------------------------------------------------------------------------------
def run_task(task):
    _ensure()
    kind = task["kind"]
    out = {"evals": 0, "nontrivial": 0, "points": 0, "calls": 0, "violations": [], "samples": [], "counters": {}}
    if kind == "roundtrip":
        for trail in TRAILS:
            for layout in LAYOUTS:
                for family in ("allbytes", "tagged", "max"):
                    case = dict(task, trail=list(trail), layout=layout, family=family)
                    ran, vs = _roundtrip_case(case)
                    if ran is None:
                        continue
                    out["evals"] += 1
                    out["points"] += 1
                    out["calls"] += 2
                    if task["L"] >= 2 and family != "max":
                        out["nontrivial"] += 1
                    out["violations"] += vs[:3]
                    k = f"residue_b{task['bits']}_{task['L'] % (8 // task['bits'])}"
                    out["counters"][k] = out["counters"].get(k, 0) + 1
        out["samples"].append(dict(task, trail=[2, 3], layout="step2", family="allbytes"))
    elif kind == "kernels":
        ev, vs, routes = _kernel_case(task)
        out["evals"] = ev
        out["nontrivial"] = ev
        out["points"] = 256
        out["calls"] = ev
        out["violations"] = vs[:10]
        out["nviol"] = len(vs)
        for r, n in routes.items():
            out["counters"]["route_" + r] = n
        out["samples"].append(dict(task, k=137, layout="transposed"))
    elif kind == "repeat":
        ev, vs = _repeat_case(task)
        out["evals"] = ev
        out["nontrivial"] = ev
        out["points"] = 1
        out["calls"] = ev
        out["violations"] = vs[:6]
    elif kind == "large":
        ev, vs = _large_case(task)
        out["evals"] = ev
        out["nontrivial"] = ev
        out["points"] = 2
        out["calls"] = ev
        out["violations"] = vs[:6]
        out["counters"]["large_cases"] = 1
    elif kind == "ops":
        ev, vs = _ops_case(task)
        out["evals"] = ev
        out["nontrivial"] = ev
        out["points"] = ev
        out["calls"] = ev
        out["violations"] = vs[:20]
        out["nviol"] = len(vs)
    elif kind == "programs":
        st, tr, vs = _programs_case(task)
        out["evals"] = st
        out["nontrivial"] = st
        out["points"] = st
        out["calls"] = tr
        out["violations"] = vs[:20]
        out["nviol"] = len(vs)
        out["samples"].append(dict(task, program=["to_cpu", "state_dict", "detach"]))
    out["counters"]["cpp_calls"] = _lib.calls
    return out


def replay_task(case):
    _ensure()
    kind = case["kind"]
    if kind == "roundtrip":
        return _roundtrip_case(case)[1]
    if kind == "kernels":
        return [v for v in _kernel_case(case)[1] if v["case"].get("k") == case.get("k") and v["case"].get("layout") == case.get("layout")]
    if kind == "repeat":
        return _repeat_case(case)[1]
    if kind == "large":
        return _large_case(case)[1]
    if kind == "ops":
        return _ops_case(case)[1]
    if kind == "programs":
        return _programs_case(case)[2]
    raise ValueError(kind)


def coverage(agg, tier, tasks):
    from ..pool import HarnessError

    c = agg.counters
    for r in ("quanto", "quanto_disabled", "quanto_py", "quanto_ext"):
        if c.get("route_" + r, 0) == 0:
            raise HarnessError(f"vacuity guard: route {r} never produced a result")
    if c.get("cpp_calls", 0) == 0:
        raise HarnessError("vacuity guard: the compiled C++ kernel was never executed")
    for bits in (2, 4):
        for res in range(8 // bits):
            if c.get(f"residue_b{bits}_{res}", 0) == 0:
                raise HarnessError(f"vacuity guard: residue {res} mod {8 // bits} never visited for {bits} bits")
    return {
        "rule": RULE,
        "states": agg.points,
        "transitions": agg.calls,
        "traces_validated_against_impl": agg.calls,
        "exhaustive": True,
        "size_ladder": [t["shape"] for t in tasks if t["kind"] == "large" and t["bits"] == 2],
        "bounds": {"max_leading_dim": max(t.get("L", 0) for t in tasks), "trailing_shapes": TRAILS, "layouts": LAYOUTS,
                   "byte_values": 256, "routes": 4},
        "counters": dict(sorted(c.items())),
    }
