"""C09 - freeze() preserves outputs bit-for-bit, is idempotent and compacts storage (E2)."""
import copy
import io

import torch

from .. import lifecycle, models, num
from ..pool import journal
from ..report import violation

PID = "C09"
LEVEL = "model_checking"
RULE = (
    "for every configuration (7 toy models x 6 weight qtypes x activations {None,qint8,e4m3} x dtype {f32,f16,bf16}, plus 16 configurations with a user-defined optimizer) breadth-first search over life-cycle histories of "
    "{forward, calibrate(batch a|b, streamlined or not), freeze, requires_grad_(False), to('cpu'), deepcopy, state-dict round trip} to depth 5 (quick) / 7 (thorough); states rebuilt by replay, de-duplicated on a hash of "
    "all parameters, buffers, payloads and qtypes. Invariants on every transition: freeze / freeze-again / to / deepcopy keep the outputs on two probe inputs bit-identical and leave "
    "biases, scales and non-quantized modules untouched; after freeze every weight is a quantized tensor of the requested qtype with exactly ceil(rows*bits/8) x (numel/rows) payload "
    "bytes and one scale (zero-point) per output index or group; a second freeze leaves the payload storage identical. Non-trivial transitions = freeze/to/deepcopy/state-dict events."
)
ASSUMPTIONS = [
    "only the cpu device exists: device moves are to('cpu') / cpu()",
    "state-dict round trips are used to reach more states; their own correctness is judged by C10",
    "bfloat16 models use in_features that are multiples of 16 or not multiples of 4 (torch int8pack kernel domain, see C07)",
]
PRESERVING = {"freeze", "to_cpu", "deepcopy", "sd", "no_grad_params", "soak"}


class St:
    def __init__(self, cfg):
        self.cfg = cfg
        self.model = models.build_quantized(cfg["model"], cfg["dt"], cfg["w"], cfg["a"], optimizer=cfg.get("opt", False))


def _events(st, tier):
    if st.cfg.get("soak"):
        return ["freeze", "soak", "deepcopy", "fwd_a"]
    ev = ["fwd_a", "freeze", "to_cpu", "deepcopy", "sd", "no_grad_params"]
    if "conv" in st.cfg["model"] and not st.cfg.get("long"):
        ev.append("chlast")  # the model is switched to channels_last (not value-preserving bit for bit: another kernel may run)
    if st.cfg["a"]:
        ev.append("calib_a")
        ev.append("calib_s")  # default Calibration(): streamlining may switch some activation qtypes to None
        if tier == "thorough":
            ev.append("calib_b")
    return ev


def _apply(st, ev):
    from optimum.quanto import Calibration, freeze

    cfg = st.cfg
    m = st.model
    if ev == "fwd_a":
        with torch.no_grad():
            m(models.probe_input(cfg["model"], cfg["dt"], 0))
    elif ev in ("calib_a", "calib_b", "calib_s"):
        with torch.no_grad(), Calibration(streamline=(ev == "calib_s")):
            m(models.probe_input(cfg["model"], cfg["dt"], 0 if ev == "calib_a" else 1))
    elif ev == "soak":
        # a long-running service: many inference forwards on the same model object
        with torch.no_grad():
            x = models.probe_input(cfg["model"], cfg["dt"], 0)
            for _ in range(cfg["soak"]):
                m(x)
    elif ev == "freeze":
        freeze(m)
    elif ev == "no_grad_params":
        m.requires_grad_(False)  # e.g. a backbone frozen for transfer learning
    elif ev == "chlast":
        st.model = m.to(memory_format=torch.channels_last)
    elif ev == "to_cpu":
        st.model = m.to("cpu")
    elif ev == "deepcopy":
        st.model = copy.deepcopy(m)
    elif ev == "sd":
        b = io.BytesIO()
        torch.save(m.state_dict(), b)
        b.seek(0)
        sd = torch.load(b, weights_only=False)
        fresh = models.build_quantized(cfg["model"], cfg["dt"], cfg["w"], cfg["a"], optimizer=cfg.get("opt", False))
        fresh.load_state_dict(sd)
        st.model = fresh
    else:
        raise ValueError(ev)
    return st


def _probe(st):
    outs = []
    with torch.no_grad():
        for k in (0, 1):
            y = st.model(models.probe_input(st.cfg["model"], st.cfg["dt"], k))
            outs.append(lifecycle.out_bytes(y))
        if st.cfg["a"]:
            # an already quantized input carrying its own scale (different from the calibrated input scale)
            outs.append(lifecycle.out_bytes(st.model(models.quantized_probe(st.cfg["model"], st.cfg["dt"], st.cfg["a"]))))
    return outs


def _side_state(model):
    """biases, scales and everything in non-quantized modules"""
    from optimum.quanto import QModuleMixin

    d = {}
    for n, m in model.named_modules():
        q = isinstance(m, QModuleMixin)
        for pn, p in list(m.named_parameters(recurse=False)) + list(m.named_buffers(recurse=False)):
            if q and pn == "weight":
                continue
            d[f"{n}.{pn}"] = lifecycle.tensor_bytes(p)
    return d


def _compact_check(model, cfg):
    from optimum.quanto import QBitsTensor, QBytesTensor, QTensor
    from optimum.quanto.tensor.qbits.packed import PackedTensor

    probs = []
    for n, m in models.qmodules(model):
        if m.weight_qtype is None:
            continue
        w = m.weight
        if not isinstance(w, QTensor):
            probs.append(f"{n}: weight is a {type(w).__name__} after freeze")
            continue
        if w.qtype != m.weight_qtype or w.qtype.name != cfg["w"]:
            probs.append(f"{n}: frozen weight has qtype {w.qtype.name}, requested {cfg['w']}")
        out = w.shape[0]
        per_out = w.numel() // out
        bits = w.qtype.bits
        if isinstance(w, QBytesTensor):
            if type(w._data) is not torch.Tensor or w._data.numel() * w._data.element_size() != w.numel():
                probs.append(f"{n}: payload holds {w._data.numel() * w._data.element_size()} bytes for {w.numel()} 8-bit codes")
            want = out if out > 1 else 1
            if w._scale.numel() != want:
                probs.append(f"{n}: {w._scale.numel()} scale(s) for {out} output feature(s)")
        elif isinstance(w, QBitsTensor):
            gs = m.weight_group_size
            groups = out * (per_out // gs) if gs else out
            rows = groups if gs else out
            cols = gs if gs else per_out
            wantbytes = -(-rows * bits // 8) * cols
            inner = w._data._data if isinstance(w._data, PackedTensor) else None
            if inner is None or inner.dtype != torch.uint8 or inner.numel() != wantbytes:
                probs.append(f"{n}: packed payload holds {None if inner is None else inner.numel()} bytes, expected ceil({rows}*{bits}/8)*{cols} = {wantbytes}")
            if w._scale.numel() != groups or w._zeropoint.numel() != groups:
                probs.append(f"{n}: {w._scale.numel()} scales / {w._zeropoint.numel()} zero-points for {groups} group(s)")
            if w._group_size != gs:
                probs.append(f"{n}: group size {w._group_size} != module group size {gs}")
    return probs


def _payload_ptrs(model):
    from optimum.quanto import QTensor
    from optimum.quanto.tensor.qbits.packed import PackedTensor

    out = {}
    for n, m in models.qmodules(model):
        w = m.weight
        if isinstance(w, QTensor):
            d = w._data._data if isinstance(w._data, PackedTensor) else w._data
            out[n] = (d.data_ptr(), lifecycle.tensor_bytes(w))
    return out


def _explore(cfg, tier, only=None):
    depth = cfg.get("depth") or (5 if tier == "quick" else 7)
    viol = []
    counters = {"preserving": 0}

    def on_transition(hist, ev, st):
        if only is not None and only != "direct" and (hist != only["history"] or ev != only["event"]):
            return _apply(st, ev) if only is not None and len(hist) < len(only["history"]) else None
        case = {"cfg": cfg, "tier": tier, "history": hist, "event": ev}
        journal(repr(case))
        fields = {"model": cfg["model"], "weights": cfg["w"], "activations": cfg["a"], "dtype": cfg["dt"], "event": ev}
        try:
            before = _probe(st) if ev in PRESERVING else None
            side = _side_state(st.model) if ev in PRESERVING else None
            frozen_before = all(m.frozen for _, m in models.qmodules(st.model) if m.weight_qtype is not None)
            ptrs = _payload_ptrs(st.model) if (ev == "freeze" and frozen_before) else None
        except Exception as e:  # noqa
            viol.append(violation(PID, case, dict(fields, sub="forward_raised"), f"forward_raised: forward raised {type(e).__name__}: {str(e)[:200]} after {hist}"))
            return None
        try:
            st = _apply(st, ev)
        except Exception as e:  # noqa
            if ev != "sd":
                viol.append(violation(PID, case, dict(fields, sub="event_raised"), f"event_raised: {ev} raised {type(e).__name__}: {str(e)[:200]} after {hist} ({cfg})"))
            return None
        if ev in PRESERVING and ev != "sd":
            counters["preserving"] += 1
            try:
                after = _probe(st)
            except Exception as e:  # noqa
                viol.append(violation(PID, case, dict(fields, sub="forward_raised"), f"forward_raised: forward after {ev} raised {type(e).__name__}: {str(e)[:200]} (history {hist})"))
                return None
            if after != before:
                viol.append(violation(PID, case, dict(fields, sub="outputs_changed"), f"outputs_changed: outputs are not bit-identical across {ev} after {hist} ({cfg})"))
            side2 = _side_state(st.model)
            if side2 != side:
                ch = [k for k in side if side2.get(k) != side[k]] + [k for k in side2 if k not in side]
                viol.append(violation(PID, case, dict(fields, sub="side_state_changed"), f"side_state_changed: {ev} changed {ch[:4]} after {hist}"))
        if ev == "freeze":
            for p in _compact_check(st.model, cfg):
                viol.append(violation(PID, case, dict(fields, sub="not_compact"), f"not_compact: after freeze ({hist}): {p}"))
            if ptrs is not None:
                p2 = _payload_ptrs(st.model)
                if p2 != ptrs:
                    viol.append(violation(PID, case, dict(fields, sub="refreeze_changed"), f"refreeze_changed: freezing an already frozen model changed the stored payload (history {hist})"))
        return st

    on_transition.apply = _apply
    if only == "direct":
        return on_transition, viol
    if cfg.get("long"):
        res = lifecycle.long_paths(lambda: St(cfg), lambda st: _events(st, "thorough"), on_transition, cfg["long"], 3 if tier == "quick" else 6)
    else:
        res = lifecycle.bfs_local(lambda: St(cfg), lambda st: _events(st, tier), _apply, lambda st: lifecycle.model_hash(st.model), on_transition, depth)
    res["preserving"] = counters["preserving"]
    return res, viol


def _cfgs(tier):
    out = []
    for model in models.MODELS:
        for w in models.WQ:
            for a in (None, "qint8", "qfloat8_e4m3fn"):
                for dt in ("float32", "float16", "bfloat16"):
                    out.append({"model": model, "w": w, "a": a, "dt": dt})
    # a user-defined optimizer of the right family (non-default argument of quantize())
    for model in ("mlp", "wide"):
        for w in ("qint8", "qfloat8_e4m3fn", "qint4", "qint2"):
            for a in (None, "qint8"):
                out.append({"model": model, "w": w, "a": a, "dt": "float32", "opt": True})
    # depth ladder: a few fixed long histories per configuration (counters, caches that evict or go stale, accumulated drift)
    for model in ("mlp", "ln", "conv", "idiv"):
        for w in ("qint8", "qfloat8_e4m3fn", "qint4"):
            for a in (None, "qint8"):
                out.append({"model": model, "w": w, "a": a, "dt": "float32", "long": 40 if tier == "quick" else 120})
    # repetition ladder: more than a thousand forwards of one model object between the usual events
    for model in ("mlp", "conv", "ln"):
        for w in models.WQ:
            for a in (None, "qint8"):
                out.append({"model": model, "w": w, "a": a, "dt": "float32", "soak": 1100 if tier == "quick" else 5000, "depth": 3})
    # many index-named quantized siblings
    for w in ("qint8", "qint4"):
        for a in (None, "qint8"):
            out.append({"model": "seq12", "w": w, "a": a, "dt": "float32", "depth": 3})
    # size ladder: large layers (tiling / blocking / caching code paths), shallow histories
    for model in ("big_lin", "big_pair", "big_conv"):
        for w in ("qint8", "qfloat8_e4m3fn", "qint4", "qint2"):
            for a, dt in ((None, "float32"), ("qint8", "float32")) + ((("qint8", "float16"), (None, "bfloat16")) if tier == "thorough" else ()):
                out.append({"model": model, "w": w, "a": a, "dt": dt, "depth": 2 if tier == "quick" else 3})
    return out


def plan(tier, seed):
    return [{"cfg": c, "tier": tier} for c in _cfgs(tier)]


def run_task(task):
    res, viol = _explore(task["cfg"], task["tier"])
    seen = {}
    for v in viol:
        seen.setdefault(str(sorted(v["fields"].items())), v)
    out = {"evals": res["transitions"], "nontrivial": res["preserving"], "points": res["states"], "calls": res["transitions"], "violations": list(seen.values())[:30], "nviol": len(viol),
           "counters": {"frontier_emptied": int(res["frontier_emptied"]), "unexpanded": res["unexpanded"], "max_depth": res["max_depth"], "long_paths": res.get("long_paths", 0), "long_steps": res.get("long_steps", 0)}, "samples": []}
    if task["cfg"] == {"model": "mlp", "w": "qint4", "a": "qint8", "dt": "float16"}:
        out["samples"] = [{"config": task["cfg"], "history": h} for h in res["samples"]]
    return out


def crash_violation(task, info):
    return [violation(PID, {"cfg": task["cfg"], "tier": task["tier"], "history": [], "event": None}, {"sub": "worker_crash", "model": task["cfg"]["model"]}, f"worker_crash: signal {info.get('signal')} at {info.get('journal')}")]


def replay_task(case):
    if case.get("event") is None:
        return _explore(case["cfg"], case["tier"])[1]
    # replay exactly one transition
    on_transition, viol = _explore(case["cfg"], case["tier"], only="direct")
    st = St(case["cfg"])
    for ev in case["history"]:
        st = _apply(st, ev)
    on_transition(list(case["history"]), case["event"], st)
    return viol


def coverage(agg, tier, tasks):
    from ..pool import HarnessError

    if agg.nontrivial == 0:
        raise HarnessError("vacuity guard: no preserving transition executed")
    return {
        "rule": RULE,
        "states": agg.points,
        "transitions": agg.calls,
        "traces_validated_against_impl": agg.calls,
        "configurations": len(tasks),
        "configs_whose_state_space_saturated": agg.counters.get("frontier_emptied", 0),
        "unexpanded_frontier_states": agg.counters.get("unexpanded", 0),
        "depth": 5 if tier == "quick" else 7,
        "depth_ladder": {"fixed_long_paths": agg.counters.get("long_paths", 0), "steps": agg.counters.get("long_steps", 0), "length": 40 if tier == "quick" else 120},
        "exhaustive": True,
    }
