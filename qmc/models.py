"""Deterministic toy models and probe inputs shared by the life-cycle checks (C09-C13)."""
import torch
import torch.nn as nn

from . import num

WQ = ["qint8", "qfloat8", "qfloat8_e4m3fn", "qfloat8_e5m2", "qint4", "qint2"]


def _fill(p, k=0):
    with torch.no_grad():
        i = torch.arange(p.numel(), dtype=torch.float64).reshape(p.shape)
        p.copy_((torch.sin(i * 0.7 + k) * (0.4 + (i % 5) * 0.1)).to(p.dtype))


class IDivMLP(nn.Module):
    """fc1 -> in-place scalar division of the (possibly quantized) activation -> fc2"""

    def __init__(self, fin=16, hid=12, fout=8):
        super().__init__()
        self.fc1 = nn.Linear(fin, hid)
        self.fc2 = nn.Linear(hid, fout)

    def forward(self, x):
        h = self.fc1(x)
        h /= 4.0
        return self.fc2(h)


class IMulTensorMLP(nn.Module):
    """fc1 -> in-place multiplication of the (possibly quantized) activation by a 0-dim buffer tensor (a learned / stored gain) -> fc2"""

    def __init__(self, fin=16, hid=12, fout=8):
        super().__init__()
        self.fc1 = nn.Linear(fin, hid)
        self.fc2 = nn.Linear(hid, fout)
        self.register_buffer("gain", torch.tensor(0.25))

    def forward(self, x):
        h = self.fc1(x)
        h *= self.gain
        return self.fc2(h)


MODELS = {
    "lin": lambda: nn.Sequential(nn.Linear(16, 8)),
    "mlp": lambda: nn.Sequential(nn.Linear(16, 12), nn.ReLU(), nn.Linear(12, 8)),
    "ln": lambda: nn.Sequential(nn.Linear(16, 12), nn.LayerNorm(12), nn.Linear(12, 8)),
    "conv": lambda: nn.Sequential(nn.Conv2d(2, 4, 3, padding=1), nn.ReLU(), nn.Conv2d(4, 2, 3)),
    "wide": lambda: nn.Sequential(nn.Linear(160, 6), nn.ReLU(), nn.Linear(6, 4)),
    "w256": lambda: nn.Sequential(nn.Linear(256, 4, bias=False)),
    "idiv": lambda: IDivMLP(),
    "imul_t": lambda: IMulTensorMLP(),
}


def _nonneg_lin(fin, fout):
    """Linear(48,fin) [weights+activations quantized] -> ReLU -> Linear(fin,fout) [weights only: consumes int8 activations, returns
    float]; all parameters non-negative, so the integer sums of the wide contraction do not cancel."""
    m = nn.Sequential(nn.Linear(48, fin), nn.ReLU(), nn.Linear(fin, fout))
    m._nonneg = True
    m._mixed = True
    return m


# size ladder (tiling / blocking / caching code paths far beyond the exhaustively explored sizes); not part of MODELS: the checks
# that use them bound the history depth separately
BIG = {
    "seq12": lambda: nn.Sequential(*[nn.Linear(8, 8) for _ in range(12)]),  # twelve index-named siblings: '1' is a prefix of '10', '11'

    "big_lin": lambda: nn.Sequential(nn.Linear(4096, 1030)),  # 4.2M weights (> 2^22), 1030 rows
    "big_pair": lambda: nn.Sequential(nn.Linear(2048, 2048), nn.ReLU(), nn.Linear(2048, 2048)),  # two layers of the same shape
    "big_conv": lambda: nn.Sequential(nn.Conv2d(130, 1030, 3, padding=1)),  # 1.2M weights
    "big_k25": lambda: _nonneg_lin(16384, 25),  # deep contraction with non-negative operands: integer sums exceed 2^24
    "big_k27": lambda: _nonneg_lin(16384, 27),
}
BIG_SHAPE = {"seq12": (3, 8), "big_lin": (2, 4096), "big_pair": (2, 2048), "big_conv": (1, 130, 4, 4), "big_k25": (2, 48), "big_k27": (2, 48)}
IN_SHAPE = {"lin": (3, 16), "mlp": (3, 16), "ln": (2, 2, 16), "conv": (2, 2, 6, 6), "wide": (3, 160), "w256": (2, 256), "idiv": (3, 16), "imul_t": (3, 16)}


def build_float(name, dtname):
    torch.manual_seed(0)
    m = (MODELS.get(name) or BIG[name])()
    for k, p in enumerate(m.parameters()):
        _fill(p, k)
        if getattr(m, "_nonneg", False):
            with torch.no_grad():
                p.abs_()
    return m.to(num.DTYPES[dtname]).eval()


def probe_input(name, dtname, k=0):
    shape = IN_SHAPE.get(name) or BIG_SHAPE[name]
    n = 1
    for d in shape:
        n *= d
    i = torch.arange(n, dtype=torch.float64).reshape(shape)
    amp = [1.0, 2.5, 0.2, 10.0][k % 4]
    return (torch.cos(i * 0.31 + k) * (1.0 + (i % 3) * 0.4) * amp).to(num.DTYPES[dtname])


class ClippedAbsmax:
    pass


def custom_optimizer(wname):
    """A user-defined optimizer of the right family (legitimate non-default argument of quantize())."""
    from optimum.quanto import AbsmaxOptimizer, MaxOptimizer

    if num.qt(wname).bits == 8:
        class Clipped(AbsmaxOptimizer):
            def optimize(self, base, bits, axis=None):
                return super().optimize(base, bits, axis) * 0.75

        return Clipped()

    class Shrunk(MaxOptimizer):
        def optimize(self, base, bits, axis):
            scale, zp = super().optimize(base * 0.75, bits, axis)
            return scale, zp

    return Shrunk()


def build_quantized(name, dtname, wname, aname, optimizer=False):
    from optimum.quanto import quantize

    m = build_float(name, dtname)
    kw = {}
    if optimizer and wname:
        kw["optimizer"] = custom_optimizer(wname)
    if wname:
        kw["weights"] = num.qt(wname)
    if getattr(m, "_mixed", False):
        # two quantize() calls with module filters: only the first layer quantizes its activations
        kw1 = dict(kw)
        if aname:
            kw1["activations"] = num.qt(aname)
        quantize(m, modules=[m[0]], **kw1)
        quantize(m, modules=[m[2]], **kw)
        return m
    if aname:
        kw["activations"] = num.qt(aname)
    quantize(m, **kw)
    return m


def qmodules(model):
    from optimum.quanto import QModuleMixin

    return [(n, m) for n, m in model.named_modules() if isinstance(m, QModuleMixin)]


def quantized_probe(name, dtname, aname):
    """A per-tensor quantized input built with the library's own qtype object and a scale of its own."""
    from optimum.quanto import quantize_activation

    x = probe_input(name, dtname, 2)
    scale = (x.abs().max().to(torch.float64) * 1.3 / num.float8.QMAX[aname]).to(num.DTYPES[dtname])
    return quantize_activation(x, num.qt(aname), scale)
