"""Explicit-state exploration of life-cycle histories of a quantized model (engine E2; C09, C10, C12, C13).

A state is the history (list of events) that reaches it from a freshly built configuration; it is rebuilt by replay on
fresh real objects for every expansion (live modules are neither shared nor copied). States are de-duplicated on a canonical
key computed from the live objects. The search for one configuration runs inside one worker; configurations are spread
over the worker pool.
"""
import hashlib

import torch

from . import num


def tensor_bytes(t):
    """Canonical bytes of any tensor (plain or quantized), including inner tensors and meta strings."""
    from optimum.quanto import QTensor

    if isinstance(t, QTensor):
        names, meta = t.__tensor_flatten__()
        parts = [repr(sorted(meta.items())).encode(), type(t).__name__.encode()]
        for n in names:
            parts.append(tensor_bytes(getattr(t, n)))
        return b"|".join(parts)
    if hasattr(t, "_data") and type(t) is not torch.Tensor and hasattr(t, "_bits"):
        return b"packed" + str(t._bits).encode() + str(tuple(t.shape)).encode() + tensor_bytes(t._data)
    t = t.detach()
    return str(t.dtype).encode() + str(tuple(t.shape)).encode() + num.bits_of(t).contiguous().numpy().tobytes()


def model_hash(model, extra=()):
    h = hashlib.sha256()
    for name, m in model.named_modules():
        h.update(name.encode())
        h.update(type(m).__name__.encode())
        for attr in ("weight_qtype", "activation_qtype", "weight_group_size"):
            if hasattr(m, attr):
                h.update(repr(getattr(m, attr)).encode())
        for pn, p in list(m.named_parameters(recurse=False)) + list(m.named_buffers(recurse=False)):
            h.update(pn.encode())
            h.update(tensor_bytes(p))
    for e in extra:
        h.update(repr(e).encode())
    return h.hexdigest()[:20]


def out_bytes(y):
    return tensor_bytes(y)


def bfs_local(build, events_of, apply, key_of, on_transition, depth, max_states=20000):
    """Generic local BFS.

    build()                      -> fresh initial state object
    events_of(state)             -> list of JSON-able events enabled in the state
    apply(state, ev)             -> state after the event (may mutate and return the same object, or return a new one)
    key_of(state)                -> canonical key
    on_transition(hist, ev, before_info, state_after) is called by the caller through `visit` below

    Returns dict(states, transitions, max_depth, frontier_emptied, histories (sample)).
    """
    def rebuild(hist):
        st = build()
        for ev in hist:
            st = apply(st, ev)
        return st

    st0 = build()
    seen = {key_of(st0): []}
    frontier = [[]]
    transitions = 0
    levels = 0
    samples = []
    for level in range(depth):
        nxt = []
        for hist in frontier:
            base = rebuild(hist)
            evs = events_of(base)
            for ev in evs:
                st = rebuild(hist)
                after = on_transition(hist, ev, st)  # performs apply + checks, returns the state after (or None to stop)
                transitions += 1
                if after is None:
                    continue
                k = key_of(after)
                if k not in seen:
                    seen[k] = hist + [ev]
                    nxt.append(hist + [ev])
                    if len(samples) < 3 and len(hist) >= 1:
                        samples.append(hist + [ev])
                if len(seen) >= max_states:
                    break
        levels = level + 1
        frontier = nxt
        if not frontier:
            break
    return {"states": len(seen), "transitions": transitions, "max_depth": levels, "frontier_emptied": not frontier, "unexpanded": len(frontier), "samples": samples}
