"""Explicit-state exploration of life-cycle histories of a quantized model (engine E2; C09, C10, C12, C13).

A state is the history (list of events) that reaches it from a freshly built configuration; it is rebuilt by replay on
fresh real objects for every expansion (live modules are neither shared nor copied). States are de-duplicated on a canonical
key computed from the live objects. The search for one configuration runs inside one worker; configurations are spread
over the worker pool.
"""
import hashlib

import torch

from . import num


def tensor_bytes(t, layout=False):
    """Canonical bytes of any tensor (plain or quantized), including inner tensors and meta strings.
    layout=True adds the strides of every plain tensor (state keys: a channels_last weight is another state than the same values
    stored contiguously; observations such as model outputs are compared by value only)."""
    from optimum.quanto import QTensor

    if isinstance(t, QTensor):
        names, meta = t.__tensor_flatten__()
        parts = [repr(sorted(meta.items())).encode(), type(t).__name__.encode()]
        for n in names:
            parts.append(tensor_bytes(getattr(t, n), layout))
        return b"|".join(parts)
    if hasattr(t, "_data") and type(t) is not torch.Tensor and hasattr(t, "_bits"):
        return b"packed" + str(t._bits).encode() + str(tuple(t.shape)).encode() + tensor_bytes(t._data, layout)
    t = t.detach()
    lay = (b"s" + str(tuple(t.stride())).encode()) if layout and not t.is_contiguous() else b""
    return str(t.dtype).encode() + str(tuple(t.shape)).encode() + lay + num.bits_of(t).contiguous().numpy().tobytes()


_BASE_ATTRS = None


def _digest(v, depth=0):
    """Canonical bytes of an arbitrary attribute value (tensors by content)."""
    if isinstance(v, torch.Tensor):
        try:
            return b"T" + tensor_bytes(v)
        except Exception:
            return b"T?" + str(tuple(v.shape)).encode()
    if isinstance(v, (list, tuple)) and depth < 4:
        return b"(" + b",".join(_digest(x, depth + 1) for x in v) + b")"
    if isinstance(v, dict) and depth < 4:
        return b"{" + b",".join(repr(k).encode() + b":" + _digest(x, depth + 1) for k, x in sorted(v.items(), key=lambda kv: repr(kv[0]))) + b"}"
    if isinstance(v, (int, float, str, bool, type(None), torch.dtype, torch.device)):
        return repr(v).encode()
    if hasattr(v, "name") and hasattr(v, "bits"):
        return repr(v).encode()  # qtype
    return type(v).__name__.encode()


def model_hash(model, extra=()):
    """Content hash of everything a module holds: parameters, buffers and *every extra instance attribute* (so that hidden
    state such as caches is part of the canonical key and states that differ only there are not merged)."""
    global _BASE_ATTRS
    if _BASE_ATTRS is None:
        _BASE_ATTRS = set(torch.nn.Module().__dict__.keys())
    h = hashlib.sha256()
    for name, m in model.named_modules():
        h.update(name.encode())
        h.update(type(m).__name__.encode())
        for k in sorted(m.__dict__.keys()):
            if k in _BASE_ATTRS or k in ("in_features", "out_features"):
                continue
            h.update(k.encode())
            h.update(_digest(m.__dict__[k]))
        for pn, p in list(m.named_parameters(recurse=False)) + list(m.named_buffers(recurse=False)):
            h.update(pn.encode())
            h.update(tensor_bytes(p, layout=True))
            h.update(b"g1" if p.requires_grad else b"g0")
    for e in extra:
        h.update(repr(e).encode())
    return h.hexdigest()[:20]


def out_bytes(y):
    return tensor_bytes(y)


def bfs_local(build, events_of, apply, key_of, on_transition, depth, max_states=20000):
    """Generic local BFS.

    build()                      -> fresh initial state object
    events_of(state)             -> list of JSON-able events enabled in the state
    apply(state, ev)             -> state after the event (may mutate and return the same object, or return a new one)
    key_of(state)                -> canonical key
    on_transition(hist, ev, before_info, state_after) is called by the caller through `visit` below

    Returns dict(states, transitions, max_depth, frontier_emptied, histories (sample)).
    """
    def rebuild(hist):
        st = build()
        for ev in hist:
            st = apply(st, ev)
        return st

    st0 = build()
    seen = {key_of(st0): []}
    frontier = [[]]
    transitions = 0
    levels = 0
    samples = []
    for level in range(depth):
        nxt = []
        for hist in frontier:
            base = rebuild(hist)
            evs = events_of(base)
            for ev in evs:
                st = rebuild(hist)
                after = on_transition(hist, ev, st)  # performs apply + checks, returns the state after (or None to stop)
                transitions += 1
                if after is None:
                    continue
                k = key_of(after)
                if k not in seen:
                    seen[k] = hist + [ev]
                    nxt.append(hist + [ev])
                    if len(samples) < 3 and len(hist) >= 1:
                        samples.append(hist + [ev])
                if len(seen) >= max_states:
                    break
        levels = level + 1
        frontier = nxt
        if not frontier:
            break
    return {"states": len(seen), "transitions": transitions, "max_depth": levels, "frontier_emptied": not frontier, "unexpanded": len(frontier), "samples": samples}


def long_paths(build, events_of, on_transition, length, n_paths=3, late_events=("freeze",)):
    """Depth ladder: `n_paths` fixed, deterministic event sequences of `length` steps (events drawn from the enabled menu by a
    linear congruential sequence with fixed constants - the same paths on every run), far beyond the breadth-first depth.
    The same on_transition callback (apply + invariants) as in the breadth-first search is used for every step."""
    transitions = 0
    longest = 0
    paths = []
    for p in range(n_paths):
        st = build()
        hist = []
        x = 12345 + 7919 * p
        for step in range(length):
            evs = events_of(st)
            if step < length // 2:
                # irreversible events only in the second half of a path, so that both regimes get long runs
                evs = [e for e in evs if e not in late_events] or evs
            x = (x * 1103515245 + 12345) % (1 << 31)
            ev = evs[(x >> 8) % len(evs)]
            after = on_transition(list(hist), ev, st)
            transitions += 1
            if after is None:
                # the event is not applicable here (or failed and was reported): continue the path from the same history
                st = build()
                for e in hist:
                    st = on_transition.apply(st, e)
                continue
            st = after
            hist.append(ev)
        longest = max(longest, len(hist))
        paths.append(hist)
    return {"states": transitions, "transitions": transitions, "max_depth": longest, "frontier_emptied": False, "unexpanded": 0, "samples": [p[:12] for p in paths[:1]], "long_paths": n_paths, "long_steps": transitions}
