#!/venv/bin/python
"""Regenerates MANIFEST.json from the table below (keeps it valid at all times)."""
import json, os
HERE = os.path.dirname(os.path.abspath(__file__))
CHECKS = json.load(open(os.path.join(HERE, "checks.json")))
props = [json.loads(l)["id"] for l in open(os.path.join(HERE, "properties.jsonl"))]
m = {
    "version": 1,
    "setup_cmd": "./setup.sh",
    "hooks": {
        "guard": "QUANTO_VERIF",
        "enable": "no source hooks are needed: checks import optimum.quanto from /repo's working tree (QMC_REPO_ROOT) and observe it from outside; the guard name is reserved and unused",
        "baseline_off_cmd": "cd /repo && /venv/bin/python -m pytest -ra -q -p no:cacheprovider --timeout=900 --continue-on-collection-errors",
        "source_commits": [],
        "add_only": True,
    },
    "engines": [
        {"name": "E1 finite-domain enumerator", "path": "qmc/run.py", "serves_properties": [c for c in props if CHECKS.get(c, {}).get("engine") == "E1"], "kind_free_text": "complete Cartesian products of small alphabets evaluated on the real code against an independent reference model, in crash-attributing worker processes"},
        {"name": "E2 explicit-state explorer", "path": "qmc/texp.py (tensor programs, C05/C06) and qmc/lifecycle.py (life-cycle histories, C09-C12)", "serves_properties": [c for c in props if CHECKS.get(c, {}).get("engine") == "E2"], "kind_free_text": "breadth-first search over operation programs / life-cycle histories; states rebuilt by replay on fresh real objects; canonical-key de-duplication; invariant + reference agreement on every transition"},
        {"name": "E3 fault enumerator", "path": "qmc/lifecycle.py + qmc/checks/c13.py", "serves_properties": [c for c in props if CHECKS.get(c, {}).get("engine") == "E3"], "kind_free_text": "E2 plus an injected exception at every enumerated crash point, iterated by number of faults"},
    ],
    "checks": [],
    "not_applicable": [],
    "notes": "All checks: ./check <ID> --tier quick|thorough ; exit 0 held / 1 VIOLATION / 2 harness error. Known findings: KNOWN_FINDINGS.txt. Seeded changes: seeded/.",
}
for pid in props:
    c = CHECKS.get(pid)
    if not c:
        m["not_applicable"].append({"property_id": pid, "reason": "check not implemented yet in this session (planned, see DESIGN.md section 3); no claim is made"})
        continue
    m["checks"].append({
        "property_id": pid,
        "quick_cmd": f"./check {pid} --tier quick",
        "thorough_cmd": f"./check {pid} --tier thorough",
        "evidence_file": f"/verif/evidence/{pid}.json",
        "replay_cmd_template": f"./check {pid} --replay {{path}}",
        "engine": c["engine"],
        "level_claimed": {"category": c.get("category", "model_checking"), "text": c["text"], "design_ref": c.get("design_ref", "DESIGN.md section 3 " + pid)},
        "level_note": c["note"],
        "technique": c["technique"],
    })
json.dump(m, open(os.path.join(HERE, "MANIFEST.json"), "w"), indent=1)
print("checks:", [c["property_id"] for c in m["checks"]], "n/a:", [c["property_id"] for c in m["not_applicable"]])
