#!/bin/sh
# Run once after a fresh restore (offline). Builds what the checks need from files on disk only.
HERE="$(cd "$(dirname "$0")" && pwd)"
cd "$HERE" || exit 2
mkdir -p evidence replays .cache
export PYTHONPATH="$HERE"
/venv/bin/python -m qmc.setup || exit 2
