#!/venv/bin/python
"""Work with seeded (property-breaking) changes.

  tools/seeded.py verify <dir> [<dir> ...]   apply patch.diff in a scratch worktree of /repo HEAD, run the demo with
                                              and without the change and the baseline test suite with it
  tools/seeded.py detect <dir> <ID> [<ID>..] run ./check <ID> --tier quick against the scratch tree with the patch
  tools/seeded.py matrix                      run detect for every seeded/<id>/ against its property (and extra ids)

Scratch worktrees live under /tmp/qmc_seed/ and are removed afterwards.
"""
import json
import os
import re
import shutil
import subprocess
import sys
import time

VERIF = os.path.dirname(os.path.dirname(os.path.abspath(__file__)))
SCRATCH = "/tmp/qmc_seed"
PY = "/venv/bin/python"
BASE_FAIL = os.path.join(VERIF, "tools", "baseline_failing_ids.txt")


def sh(cmd, cwd=None, env=None, timeout=3600):
    e = dict(os.environ)
    e.update(env or {})
    r = subprocess.run(cmd, shell=True, cwd=cwd, env=e, capture_output=True, text=True, timeout=timeout)
    return r.returncode, r.stdout + r.stderr


def make_tree(name):
    os.makedirs(SCRATCH, exist_ok=True)
    path = os.path.join(SCRATCH, name)
    if os.path.exists(path):
        sh(f"git -C /repo worktree remove --force {path}")
        shutil.rmtree(path, ignore_errors=True)
    rc, out = sh(f"git -C /repo worktree add --detach {path} HEAD -q")
    if rc:
        raise RuntimeError(out)
    return path


def drop_tree(path):
    sh(f"git -C /repo worktree remove --force {path}")
    shutil.rmtree(path, ignore_errors=True)
    sh("git -C /repo worktree prune")


def apply(tree, patch):
    rc, out = sh(f"git apply {patch}", cwd=tree)
    if rc:
        rc, out = sh(f"git apply --3way {patch}", cwd=tree)
    return rc, out


def failing_ids(tree):
    rc, out = sh(
        f"{PY} -m pytest -q -p no:cacheprovider --timeout=900 --continue-on-collection-errors -rfE 2>&1", cwd=tree,
        env={"OMP_NUM_THREADS": "2"}, timeout=7200,
    )
    ids = sorted(set(re.findall(r"^(?:FAILED|ERROR) (\S+)", out, flags=re.M)))
    tail = [l for l in out.splitlines() if re.search(r"\d+ passed", l)]
    return ids, (tail[-1] if tail else out[-300:])


def verify(d):
    d = os.path.abspath(d)
    patch = os.path.join(d, "patch.diff")
    demo = os.path.join(d, "demo.py")
    name = os.path.basename(d)
    tree = make_tree("v_" + name)
    res = {"dir": d}
    try:
        rc0, out0 = sh(f"{PY} {demo}", cwd=tree, env={"PYTHONPATH": tree, "OMP_NUM_THREADS": "2"})
        res["demo_without"] = rc0
        rc, out = apply(tree, patch)
        if rc:
            res["apply"] = "FAILED: " + out[-500:]
            return res
        res["apply"] = "ok"
        rc1, out1 = sh(f"{PY} {demo}", cwd=tree, env={"PYTHONPATH": tree, "OMP_NUM_THREADS": "2"})
        res["demo_with"] = rc1
        res["demo_with_msg"] = out1.strip().splitlines()[-1][:300] if out1.strip() else ""
        ids, tail = failing_ids(tree)
        base = open(BASE_FAIL).read().split()
        res["tests"] = tail.strip()
        res["tests_same_as_baseline"] = ids == sorted(base)
        if ids != sorted(base):
            res["tests_diff"] = {"new": [i for i in ids if i not in base][:10], "gone": [i for i in base if i not in ids][:10]}
    finally:
        drop_tree(tree)
    # record the outcome in meta.json
    mp = os.path.join(d, "meta.json")
    try:
        meta = json.load(open(mp))
        head = sh("git -C /repo rev-parse --short HEAD")[1].strip()
        ok = res.get("demo_without") == 0 and res.get("demo_with") not in (0, None) and bool(res.get("tests_same_as_baseline"))
        meta["verified"] = {"ok": ok, "repo_head": head, "demo_exit_without_change": res.get("demo_without"), "demo_exit_with_change": res.get("demo_with"),
                            "demo_message": res.get("demo_with_msg"), "tests_with_change": res.get("tests"), "tests_same_as_baseline": res.get("tests_same_as_baseline"),
                            "ran": "tools/seeded.py verify (scratch worktree of /repo HEAD, demo without/with the patch, baseline pytest command with the patch)"}
        if res.get("apply", "ok") != "ok":
            meta["verified"]["apply"] = res["apply"]
        json.dump(meta, open(mp, "w"), indent=1)
    except Exception as e:  # noqa
        res["meta_update_error"] = str(e)
    return res


def detect(d, ids, tier="quick"):
    d = os.path.abspath(d)
    name = os.path.basename(d)
    tree = make_tree("d_" + name)
    out = {}
    try:
        rc, o = apply(tree, os.path.join(d, "patch.diff"))
        if rc:
            return {"apply": "FAILED " + o[-300:]}
        for pid in ids:
            t0 = time.time()
            rc, o = sh(f"./check {pid} --tier {tier}", cwd=VERIF, env={"QMC_REPO_ROOT": tree}, timeout=7200)
            v = [l for l in o.splitlines() if l.startswith("VIOLATION")]
            h = [l for l in o.splitlines() if l.startswith("HARNESS-ERROR")]
            out[pid] = {"exit": rc, "violations": len(v), "first": (v[0][:260] if v else (h[0][:260] if h else "")), "wall_s": round(time.time() - t0, 1)}
    finally:
        drop_tree(tree)
    return out


def main():
    cmd = sys.argv[1]
    if cmd == "baseline":
        tree = make_tree("baseline")
        try:
            ids, tail = failing_ids(tree)
        finally:
            drop_tree(tree)
        open(BASE_FAIL, "w").write("\n".join(ids) + "\n")
        print(tail, len(ids), "failing/error ids saved")
    elif cmd == "verify":
        for d in sys.argv[2:]:
            print(json.dumps(verify(d), indent=1))
    elif cmd == "detect":
        tier = os.environ.get("TIER", "quick")
        print(json.dumps(detect(sys.argv[2], sys.argv[3:], tier), indent=1))
    elif cmd == "matrix":
        root = os.path.join(VERIF, "seeded")
        only = sys.argv[2:]
        rows = {}
        for name in sorted(os.listdir(root)):
            d = os.path.join(root, name)
            if name.startswith("_") or not os.path.exists(os.path.join(d, "meta.json")):
                continue
            if only and name not in only:
                continue
            meta = json.load(open(os.path.join(d, "meta.json")))
            if meta.get("obsolete"):
                rows[name] = {"obsolete": meta["obsolete"]}
                continue
            ids = [meta["property"]] + [i for i in meta.get("also_check", [])]
            rows[name] = detect(d, ids, meta.get("detect_tier", "quick"))
            if meta.get("detect_tier"):
                rows[name]["tier"] = meta["detect_tier"]
            print(name, json.dumps(rows[name]), flush=True)
        mpath = os.environ.get("MATRIX_OUT") or os.path.join(root, "MATRIX.json")
        allrows = json.load(open(mpath)) if (only and os.path.exists(mpath)) else {}
        allrows.update(rows)
        json.dump(allrows, open(mpath, "w"), indent=1, sort_keys=True)


if __name__ == "__main__":
    main()
