#!/venv/bin/python
"""Copy deliverables of a sub-agent worktree (/tmp/wt/<prefix>NN/_out) into seeded/<Cnn>-m<k>/ (k continues after existing)."""
import json, os, shutil, sys
prefix = sys.argv[1]
ids = sys.argv[2:]
root = '/verif/seeded'
for pid in ids:
    src = f'/tmp/wt/{prefix}{pid[1:]}/_out'
    existing = sorted(d for d in os.listdir(root) if d.startswith(pid + '-m'))
    k = len(existing)
    for m in ('m1', 'm2'):
        if not os.path.exists(f'{src}/{m}.diff') or not open(f'{src}/{m}.diff').read().strip():
            print('missing', pid, m); continue
        k += 1
        d = f'{root}/{pid}-m{k}'
        os.makedirs(d, exist_ok=True)
        shutil.copy(f'{src}/{m}.diff', f'{d}/patch.diff')
        shutil.copy(f'{src}/{m}_demo.py', f'{d}/demo.py')
        try:
            j = json.load(open(f'{src}/{m}.json'))
        except Exception:
            j = {}
        meta = {'property': pid, 'origin': 'independent sub-agent (later wave, against the repaired tree) given only the property text and a scratch worktree', 'summary': j.get('summary'), 'needs': j.get('needs'),
                'agent_report': {x: j.get(x) for x in ('tests', 'demo_with_change', 'demo_without_change')}, 'verified': None, 'also_check': []}
        json.dump(meta, open(f'{d}/meta.json', 'w'), indent=1)
        print('ingested', d)
